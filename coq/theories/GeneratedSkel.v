(* GeneratedSkel.v — REGENERATED FROM /repo ON EVERY RUN by /verif/gen (gen/skel.go). Do not edit. *)
From Scrapli Require Import Bytes.
From Coq Require Import List.
Import ListNotations.

Definition sync_skeleton : list (bytes * list bytes) := [
  (* channel/read.go Channel.read *)
  (bs "channel_read_loop",
   [bs "defer once c.exitedOnce close c.exited";
    bs "for{";
    bs "select[recv c.done,default]";
    bs "return";
    bs "call c.t.Read";
    bs "select[recv c.done,default]";
    bs "return";
    bs "return";
    bs "select[send c.Errs,recv c.done]";
    bs "return";
    bs "call time.Sleep";
    bs "continue";
    bs "call time.Sleep";
    bs "continue";
    bs "call c.Q.Enqueue";
    bs "call time.Sleep";
    bs "}"]);
  (* channel/read.go Channel.Read *)
  (bs "channel_Read",
   [bs "select[recv c.Errs,default]";
    bs "return";
    bs "select[recv c.exited,default]";
    bs "return";
    bs "call c.Q.Dequeue";
    bs "return";
    bs "return"]);
  (* channel/channel.go Channel.Close *)
  (bs "channel_Close",
   [bs "once c.doneOnce close c.done";
    bs "select[recv c.exited,timer]";
    bs "call c.t.Close false";
    bs "return";
    bs "call c.t.Close true";
    bs "return"]);
  (* transport/transport.go Transport.read *)
  (bs "transport_read",
   [bs "lock t.implLock";
    bs "defer unlock t.implLock";
    bs "call t.Impl.Read";
    bs "return"]);
  (* transport/transport.go Transport.Close *)
  (bs "transport_Close",
   [bs "lock t.implLock";
    bs "defer unlock t.implLock";
    bs "call t.Impl.Close";
    bs "return"]);
  (* driver/netconf/driver.go Driver.Close *)
  (bs "netconf_Close",
   [bs "once d.doneOnce close d.done";
    bs "call d.Channel.Close";
    bs "return";
    bs "return"]);
  (* driver/netconf/read.go Driver.read *)
  (bs "netconf_read_loop",
   [bs "for{";
    bs "select[recv d.done,default]";
    bs "return";
    bs "call d.Channel.Read";
    bs "select[send d.errs,recv d.done]";
    bs "return";
    bs "call time.Sleep";
    bs "}"]);
  (* driver/netconf/rpc.go Driver.sendRPC *)
  (bs "netconf_sendRPC",
   [bs "return";
    bs "return";
    bs "return";
    bs "defer call cancel";
    bs "go{";
    bs "defer close done";
    bs "for{";
    bs "call ctx.Err";
    bs "return";
    bs "call d.getMessage";
    bs "break";
    bs "call time.Sleep";
    bs "}";
    bs "select[send done,recv ctx.Done()]";
    bs "}";
    bs "select[recv d.errs,recv done,timer]";
    bs "return";
    bs "return";
    bs "return"]);
  (* transport/system.go System.getFd *)
  (bs "system_getFd",
   [bs "lock t.fdLock";
    bs "defer unlock t.fdLock";
    bs "load t.fd";
    bs "return"]);
  (* transport/system.go System.setFd *)
  (bs "system_setFd",
   [bs "lock t.fdLock";
    bs "defer unlock t.fdLock";
    bs "load t.fd";
    bs "store t.fd";
    bs "return"]);
  (* transport/system.go System.Read *)
  (bs "system_Read",
   [bs "call t.getFd";
    bs "call t.getFd().Read";
    bs "return";
    bs "return"]);
  (* transport/system.go System.Close *)
  (bs "system_Close",
   [bs "call t.setFd";
    bs "call t.setFd(nil).Close";
    bs "return";
    bs "return"])].

(* the Open functions (C10: the transport is closed in every failure case) *)
Definition open_skeleton : list (bytes * list bytes) := [
  (* channel/channel.go Channel.Open *)
  (bs "channel_Open",
   [bs "call c.t.Open";
    bs "return err";
    bs "defer{";
    bs "call c.Close";
    bs "}";
    bs "go c.read";
    bs "return nil";
    bs "return err";
    bs "return err";
    bs "return nil"]);
  (* driver/generic/driver.go Driver.Open *)
  (bs "generic_Open",
   [bs "call d.Channel.Open";
    bs "return err";
    bs "call d.Channel.Close";
    bs "return err";
    bs "return nil"]);
  (* driver/network/driver.go Driver.Open *)
  (bs "network_Open",
   [bs "call d.Driver.Open";
    bs "return err";
    bs "call d.Channel.Close";
    bs "return err";
    bs "return nil"]);
  (* driver/netconf/driver.go Driver.Open *)
  (bs "netconf_Open",
   [bs "call d.Channel.Open";
    bs "return err";
    bs "defer{";
    bs "call d.Channel.Close";
    bs "}";
    bs "return err";
    bs "return err";
    bs "return err";
    bs "go d.read";
    bs "return nil"])].

From Scrapli Require Import DecideLang.
From Coq Require Import String.
Open Scope string_scope.
(* driver/netconf/capabilities.go Driver.determineVersion *)
Definition determine_version_code : list dstmt :=
  [DIf (DHas "v1Dot1Cap") [DAssign "d.SelectedVersion" "V1Dot1"] [DIf (DHas "v1Dot0Cap") [DAssign "d.SelectedVersion" "V1Dot0"] [DReturn "error"]]; DSwitch "d.PreferredVersion" [(["V1Dot0"], [DIf (DHas "v1Dot0Cap") [DAssign "d.SelectedVersion" "V1Dot0"] [DReturn "error"]]); (["V1Dot1"], [DIf (DHas "v1Dot1Cap") [DAssign "d.SelectedVersion" "V1Dot1"] [DReturn "error"]])]; DSwitch "d.SelectedVersion" [(["V1Dot0"], [DAssign "d.Channel.PromptPattern" "ncPatterns.v1Dot0Delim"]); (["V1Dot1"], [DAssign "d.Channel.PromptPattern" "ncPatterns.v1Dot1Delim"])]; DReturn "nil"].
(* channel/channel.go Channel.GetTimeout *)
Definition get_timeout_code : list dstmt :=
  [DIf (DEq "t" "-1") [DReturn "c.TimeoutOps"] []; DIf (DEq "t" "0") [DReturn "util.MaxTimeout * time.Second"] []; DReturn "t"].
(* driver/generic/sendwithcallbacks.go Callback.check *)
Definition callback_check_code : list dstmt :=
  [DIf (DAtom "c.Insensitive") [DAssign "b" "bytes.ToLower(b)"] []; DIf (DAnd (DAnd (DNot (DEq "c.Contains" """""")) (DAtom "bytes.Contains(b, c.contains())")) (DNot (DAnd (DNot (DEq "c.NotContains" """""")) (DAtom "bytes.Contains(b, c.notContains())")))) [DReturn "true"] []; DIf (DAnd (DAnd (DNot (DEq "c.ContainsRe" "nil")) (DAtom "c.ContainsRe.Match(b)")) (DNot (DAnd (DNot (DEq "c.NotContains" """""")) (DAtom "bytes.Contains(b, c.notContains())")))) [DReturn "true"] []; DReturn "false"].
(* transport/telnet.go Telnet.handleControlCharResponse *)
Definition telnet_handle_code : list dstmt :=
  [DIf (DEq "len(ctrlBuf)" "0") [DIf (DNot (DEq "c" "iac")) [DAssign "t.initialBuf" "append(t.initialBuf, c)"] [DAssign "ctrlBuf" "append(ctrlBuf, c)"]] [DIf (DAnd (DEq "len(ctrlBuf)" "1") (DAtom "util.ByteIsAny(c, []byte{do, dont, will, wont})")) [DAssign "ctrlBuf" "append(ctrlBuf, c)"] [DIf (DEq "len(ctrlBuf)" "1") [DIf (DEq "c" "iac") [DAssign "t.initialBuf" "append(t.initialBuf, c)"] []; DAssign "ctrlBuf" "make([]byte, 0)"] [DIf (DEq "len(ctrlBuf)" "2") [DAssign "cmd" "ctrlBuf[1:2][0]"; DAssign "ctrlBuf" "make([]byte, 0)"; DIf (DAnd (DEq "cmd" "do") (DEq "c" "sga")) [DCall "t.c.Write([]byte{iac, will, c}) -> _, writeErr"] [DIf (DAtom "util.ByteIsAny(cmd, []byte{do, dont})") [DCall "t.c.Write([]byte{iac, wont, c}) -> _, writeErr"] [DIf (DEq "cmd" "will") [DCall "t.c.Write([]byte{iac, do, c}) -> _, writeErr"] [DIf (DEq "cmd" "wont") [DCall "t.c.Write([]byte{iac, dont, c}) -> _, writeErr"] []]]]; DIf (DNot (DEq "writeErr" "nil")) [DReturn "nil, writeErr"] []] []]]]; DReturn "ctrlBuf, nil"].
(* transport/standard.go Standard.openBase *)
Definition standard_open_base_code : list dstmt :=
  [DAssign "keyCallback" "ssh.InsecureIgnoreHostKey()"; DIf (DAtom "t.SSHArgs.StrictKey") [DIf (DEq "t.SSHArgs.KnownHostsFile" """""") [DReturn "error"] []; DCall "knownhosts.New(t.SSHArgs.KnownHostsFile)"; DIf (DNot (DEq "err" "nil")) [DReturn "err"] []; DAssign "keyCallback" "knownHosts"] []; DAssign "authMethods" "make([]ssh.AuthMethod, 0)"; DIf (DNot (DEq "t.SSHArgs.PrivateKeyPath" """""")) [DCall "os.ReadFile(t.SSHArgs.PrivateKeyPath)"; DIf (DNot (DEq "err" "nil")) [DReturn "err"] []; DCall "ssh.ParsePrivateKey(k)"; DIf (DNot (DEq "err" "nil")) [DReturn "err"] []; DAssign "authMethods" "append(authMethods, ssh.PublicKeys(signer))"] []; DIf (DNot (DEq "a.Password" """""")) [DAssign "authMethods" "append(authMethods, ssh.Password(a.Password), ssh.KeyboardInteractive( func(_, _ string, questions []string, _ []bool) ([]string, error) { answers := make([]string, len(questions)) for i := range answers { answers[i] = a.Password } return answers, nil }, ))"] []; DAssign "cfg" "&ssh.ClientConfig{ User: a.User, Auth: authMethods, Timeout: a.TimeoutSocket, HostKeyCallback: keyCallback, }"; DIf (DAtom "len(t.ExtraCiphers) > 0") [DAssign "cfg.Config.Ciphers" "append(cfg.Config.Ciphers, t.ExtraCiphers...)"] []; DIf (DAtom "len(t.ExtraKexs) > 0") [DAssign "cfg.Config.KeyExchanges" "append(cfg.Config.KeyExchanges, t.ExtraKexs...)"] []; DReturn "t.openSession(a, cfg)"].
(* driver/network/acquirepriv.go Driver.processAcquirePriv *)
Definition process_acquire_priv_code : list dstmt :=
  [DCall "d.determineCurrentPriv(currentPrompt)"; DIf (DNot (DEq "err" "nil")) [DReturn """"", """", err"] []; DIf (DAtom "util.StringSliceContains(possiblePrivs, d.CurrentPriv)") [DAssign "current" "d.CurrentPriv"] [DIf (DAtom "util.StringSliceContains(possiblePrivs, target)") [DAssign "current" "d.PrivilegeLevels[target].Name"] [DAssign "current" "possiblePrivs[0]"]]; DIf (DEq "current" "target") [DAssign "d.CurrentPriv" "current"; DReturn "noAction, current, nil"] []; DAssign "mapTo" "d.buildPrivChangeMap(current, target, nil)"; DAssign "d.CurrentPriv" "unknownPriv"; DIf (DNot (DEq "d.PrivilegeLevels[mapTo[1]].PreviousPriv" "current")) [DReturn "deescalateAction, current, nil"] []; DReturn "escalateAction, d.PrivilegeLevels[mapTo[1]].Name, nil"].
(* util/strings.go StringContainsAnySubStrs *)
Definition string_contains_any_code : list dstmt :=
  [DRange "ss" "l" [DIf (DAtom "strings.Contains(s, ss)") [DReturn "ss"] []]; DReturn """"""].
(* response/response.go Response.Record *)
Definition response_record_code : list dstmt :=
  [DAssign "r.EndTime" "time.Now()"; DAssign "r.ElapsedTime" "r.EndTime.Sub(r.StartTime).Seconds()"; DAssign "r.RawResult" "b"; DAssign "r.Result" "string(b)"; DAssign "s" "util.StringContainsAnySubStrs(r.Result, r.FailedWhenContains)"; DIf (DNot (DEq "s" """""")) [DAssign "r.Failed" "&OperationError{ Input: r.Input, Output: r.Result, ErrorString: s, }"] []].
(* driver/generic/sendcommands.go Driver.SendCommands *)
Definition send_commands_code : list dstmt :=
  [DIf (DEq "len(commands)" "0") [DReturn "nil, fmt.Errorf(""%w: no inputs provided"", util.ErrNoOp)"] []; DCall "NewOperation(opts...)"; DIf (DNot (DEq "err" "nil")) [DReturn "nil, err"] []; DAssign "m" "response.NewMultiResponse(d.Transport.GetHost())"; DRange "input" "commands[:len(commands)-1]" [DCall "d.sendCommand( input, op, opts..., )"; DIf (DNot (DEq "err" "nil")) [DReturn "nil, err"] []; DCall "m.AppendResponse(r)"; DIf (DAnd (DAtom "op.StopOnFailed") (DNot (DEq "r.Failed" "nil"))) [DReturn "m, err"] []]; DCall "d.sendCommand( commands[len(commands)-1], op, opts..., )"; DIf (DNot (DEq "err" "nil")) [DReturn "nil, err"] []; DCall "m.AppendResponse(r)"; DReturn "m, nil"].
(* response/multi.go MultiResponse.AppendResponse *)
Definition append_response_code : list dstmt :=
  [DAssign "mr.EndTime" "time.Now()"; DAssign "mr.ElapsedTime" "r.EndTime.Sub(r.StartTime).Seconds()"; DAssign "re" "r.Failed.(*OperationError)"; DIf (DNot (DEq "re" "nil")) [DIf (DEq "mr.Failed" "nil") [DAssign "mr.Failed" "&MultiOperationError{}"] []; DAssign "e" "mr.Failed.(*MultiOperationError)"; DAssign "ok" "ok of mr.Failed.(*MultiOperationError)"; DIf (DAtom "ok") [DAssign "e.Operations" "append(e.Operations, re)"] []] []; DAssign "mr.Responses" "append(mr.Responses, r)"].
(* driver/generic/sendcommand.go Driver.sendCommand *)
Definition send_command_code : list dstmt :=
  [DIf (DEq "len(driverOpts.FailedWhenContains)" "0") [DAssign "driverOpts.FailedWhenContains" "d.FailedWhenContains"] []; DAssign "r" "response.NewResponse( command, d.Transport.GetHost(), d.Transport.GetPort(), driverOpts.FailedWhenContains, )"; DCall "d.Channel.SendInput(command, opts...)"; DIf (DNot (DEq "err" "nil")) [DReturn "nil, err"] []; DCall "r.Record(b)"; DReturn "r, nil"].
(* driver/network/sendconfig.go Driver.SendConfig *)
Definition send_config_code : list dstmt :=
  [DAssign "configLines" "strings.Split(config, ""\n"")"; DCall "d.SendConfigs(configLines, opts...)"; DIf (DNot (DEq "err" "nil")) [DReturn "nil, err"] []; DAssign "r" "response.NewResponse( config, d.Transport.GetHost(), d.Transport.GetPort(), m.Responses[0].FailedWhenContains, )"; DAssign "rOutputs" "make([]string, len(m.Responses))"; DRange "resp" "m.Responses" [DAssign "i" "index of resp"; DAssign "rOutputs[i]" "resp.Result"]; DAssign "r.StartTime" "m.StartTime"; DAssign "r.EndTime" "time.Now()"; DAssign "r.ElapsedTime" "r.EndTime.Sub(r.StartTime).Seconds()"; DAssign "r.Result" "strings.Join(rOutputs, ""\n"")"; DAssign "r.Failed" "m.Failed"; DReturn "r, nil"].
(* driver/options/*.go (C19): the closures *)
Definition option_code : list (string * list dstmt) := [
  ("WithAuthUsername",
   [DAssign "a" "o.(*transport.Args)"; DAssign "ok" "ok of o.(*transport.Args)"; DIf (DNot (DAtom "ok")) [DReturn "util.ErrIgnoredOption"] []; DAssign "a.User" "s"; DReturn "nil"]);
  ("WithAuthPassword",
   [DAssign "a" "o.(*transport.Args)"; DAssign "ok" "ok of o.(*transport.Args)"; DIf (DNot (DAtom "ok")) [DReturn "util.ErrIgnoredOption"] []; DAssign "a.Password" "s"; DReturn "nil"]);
  ("WithAuthSecondary",
   [DAssign "d" "o.(*network.Driver)"; DAssign "ok" "ok of o.(*network.Driver)"; DIf (DNot (DAtom "ok")) [DReturn "util.ErrIgnoredOption"] []; DAssign "d.AuthSecondary" "s"; DReturn "nil"]);
  ("WithAuthPassphrase",
   [DAssign "a" "o.(*transport.SSHArgs)"; DAssign "ok" "ok of o.(*transport.SSHArgs)"; DIf (DNot (DAtom "ok")) [DReturn "util.ErrIgnoredOption"] []; DAssign "a.PrivateKeyPassPhrase" "s"; DReturn "nil"]);
  ("WithAuthBypass",
   [DAssign "c" "o.(*channel.Channel)"; DAssign "ok" "ok of o.(*channel.Channel)"; DIf (DNot (DAtom "ok")) [DReturn "util.ErrIgnoredOption"] []; DAssign "c.AuthBypass" "true"; DReturn "nil"]);
  ("WithPromptSearchDepth",
   [DAssign "c" "o.(*channel.Channel)"; DAssign "ok" "ok of o.(*channel.Channel)"; DIf (DNot (DAtom "ok")) [DReturn "util.ErrIgnoredOption"] []; DAssign "c.PromptSearchDepth" "i"; DReturn "nil"]);
  ("WithPromptPattern",
   [DAssign "c" "o.(*channel.Channel)"; DAssign "ok" "ok of o.(*channel.Channel)"; DIf (DNot (DAtom "ok")) [DReturn "util.ErrIgnoredOption"] []; DAssign "c.PromptPattern" "p"; DReturn "nil"]);
  ("WithUsernamePattern",
   [DAssign "c" "o.(*channel.Channel)"; DAssign "ok" "ok of o.(*channel.Channel)"; DIf (DNot (DAtom "ok")) [DReturn "util.ErrIgnoredOption"] []; DAssign "c.UsernamePattern" "p"; DReturn "nil"]);
  ("WithPasswordPattern",
   [DAssign "c" "o.(*channel.Channel)"; DAssign "ok" "ok of o.(*channel.Channel)"; DIf (DNot (DAtom "ok")) [DReturn "util.ErrIgnoredOption"] []; DAssign "c.PasswordPattern" "p"; DReturn "nil"]);
  ("WithPassphrasePattern",
   [DAssign "c" "o.(*channel.Channel)"; DAssign "ok" "ok of o.(*channel.Channel)"; DIf (DNot (DAtom "ok")) [DReturn "util.ErrIgnoredOption"] []; DAssign "c.PassphrasePattern" "p"; DReturn "nil"]);
  ("WithReturnChar",
   [DAssign "c" "o.(*channel.Channel)"; DAssign "ok" "ok of o.(*channel.Channel)"; DIf (DNot (DAtom "ok")) [DReturn "util.ErrIgnoredOption"] []; DAssign "c.ReturnChar" "[]byte(s)"; DReturn "nil"]);
  ("WithTimeoutOps",
   [DAssign "c" "o.(*channel.Channel)"; DAssign "ok" "ok of o.(*channel.Channel)"; DIf (DNot (DAtom "ok")) [DReturn "util.ErrIgnoredOption"] []; DAssign "c.TimeoutOps" "t"; DReturn "nil"]);
  ("WithReadDelay",
   [DAssign "c" "o.(*channel.Channel)"; DAssign "ok" "ok of o.(*channel.Channel)"; DIf (DNot (DAtom "ok")) [DReturn "util.ErrIgnoredOption"] []; DAssign "c.ReadDelay" "t"; DReturn "nil"]);
  ("WithChannelLog",
   [DAssign "c" "o.(*channel.Channel)"; DAssign "ok" "ok of o.(*channel.Channel)"; DIf (DNot (DAtom "ok")) [DReturn "util.ErrIgnoredOption"] []; DAssign "c.ChannelLog" "w"; DReturn "nil"]);
  ("WithTransportType",
   [DAssign "d" "o.(*generic.Driver)"; DAssign "ok" "ok of o.(*generic.Driver)"; DIf (DNot (DAtom "ok")) [DReturn "util.ErrIgnoredOption"] []; DSwitch "transportType" [(["transport.SystemTransport"; "transport.StandardTransport"; "transport.TelnetTransport"; "transport.FileTransport"], [DAssign "d.TransportType" "transportType"]); ([], [DReturn "error"])]; DReturn "nil"]);
  ("WithFailedWhenContains",
   [DAssign "d" "o.(*generic.Driver)"; DAssign "ok" "ok of o.(*generic.Driver)"; DIf (DNot (DAtom "ok")) [DReturn "util.ErrIgnoredOption"] []; DAssign "d.FailedWhenContains" "fw"; DReturn "nil"]);
  ("WithOnOpen",
   [DAssign "d" "o.(*generic.Driver)"; DAssign "ok" "ok of o.(*generic.Driver)"; DIf (DNot (DAtom "ok")) [DReturn "util.ErrIgnoredOption"] []; DAssign "d.OnOpen" "f"; DReturn "nil"]);
  ("WithOnClose",
   [DAssign "d" "o.(*generic.Driver)"; DAssign "ok" "ok of o.(*generic.Driver)"; DIf (DNot (DAtom "ok")) [DReturn "util.ErrIgnoredOption"] []; DAssign "d.OnClose" "f"; DReturn "nil"]);
  ("WithLogger",
   [DAssign "d" "o.(*generic.Driver)"; DAssign "ok" "ok of o.(*generic.Driver)"; DIf (DNot (DAtom "ok")) [DReturn "util.ErrIgnoredOption"] []; DAssign "d.Logger" "l"; DReturn "nil"]);
  ("WithDefaultLogger",
   [DAssign "d" "o.(*generic.Driver)"; DAssign "ok" "ok of o.(*generic.Driver)"; DIf (DNot (DAtom "ok")) [DReturn "util.ErrIgnoredOption"] []; DCall "logging.NewInstance( logging.WithLevel(""info""), logging.WithLogger(log.Print), )"; DIf (DNot (DEq "err" "nil")) [DReturn "err"] []; DAssign "d.Logger" "l"; DReturn "nil"]);
  ("WithNetconfPreferredVersion",
   [DSwitch "s" [(["netconf.V1Dot0"; "netconf.V1Dot1"], []); ([], [DReturn "error"])]; DAssign "d" "o.(*netconf.Driver)"; DAssign "ok" "ok of o.(*netconf.Driver)"; DIf (DNot (DAtom "ok")) [DReturn "util.ErrIgnoredOption"] []; DAssign "d.PreferredVersion" "s"; DReturn "nil"]);
  ("WithNetconfForceSelfClosingTags",
   [DAssign "d" "o.(*netconf.Driver)"; DAssign "ok" "ok of o.(*netconf.Driver)"; DIf (DNot (DAtom "ok")) [DReturn "util.ErrIgnoredOption"] []; DAssign "d.ForceSelfClosingTags" "true"; DReturn "nil"]);
  ("WithNetconfExcludeHeader",
   [DAssign "d" "o.(*netconf.Driver)"; DAssign "ok" "ok of o.(*netconf.Driver)"; DIf (DNot (DAtom "ok")) [DReturn "util.ErrIgnoredOption"] []; DAssign "d.ExcludeHeader" "true"; DReturn "nil"]);
  ("WithNetworkOnOpen",
   [DAssign "d" "o.(*network.Driver)"; DAssign "ok" "ok of o.(*network.Driver)"; DIf (DNot (DAtom "ok")) [DReturn "util.ErrIgnoredOption"] []; DAssign "d.OnOpen" "f"; DReturn "nil"]);
  ("WithNetworkOnClose",
   [DAssign "d" "o.(*network.Driver)"; DAssign "ok" "ok of o.(*network.Driver)"; DIf (DNot (DAtom "ok")) [DReturn "util.ErrIgnoredOption"] []; DAssign "d.OnClose" "f"; DReturn "nil"]);
  ("WithPrivilegeLevels",
   [DAssign "d" "o.(*network.Driver)"; DAssign "ok" "ok of o.(*network.Driver)"; DIf (DNot (DAtom "ok")) [DReturn "util.ErrIgnoredOption"] []; DAssign "d.PrivilegeLevels" "privilegeLevels"; DReturn "nil"]);
  ("WithDefaultDesiredPriv",
   [DAssign "d" "o.(*network.Driver)"; DAssign "ok" "ok of o.(*network.Driver)"; DIf (DNot (DAtom "ok")) [DReturn "util.ErrIgnoredOption"] []; DAssign "d.DefaultDesiredPriv" "s"; DReturn "nil"]);
  ("WithCustomTransport",
   [DAssign "a" "o.(*transport.Args)"; DAssign "ok" "ok of o.(*transport.Args)"; DIf (DNot (DAtom "ok")) [DReturn "util.ErrIgnoredOption"] []; DAssign "a.UserImplementation" "i"; DReturn "nil"]);
  ("WithTransportReadSize",
   [DAssign "a" "o.(*transport.Args)"; DAssign "ok" "ok of o.(*transport.Args)"; DIf (DNot (DAtom "ok")) [DReturn "util.ErrIgnoredOption"] []; DAssign "a.ReadSize" "i"; DReturn "nil"]);
  ("WithPort",
   [DAssign "a" "o.(*transport.Args)"; DAssign "ok" "ok of o.(*transport.Args)"; DIf (DNot (DAtom "ok")) [DReturn "util.ErrIgnoredOption"] []; DAssign "a.Port" "i"; DReturn "nil"]);
  ("WithTermHeight",
   [DAssign "a" "o.(*transport.Args)"; DAssign "ok" "ok of o.(*transport.Args)"; DIf (DNot (DAtom "ok")) [DReturn "util.ErrIgnoredOption"] []; DAssign "a.TermHeight" "i"; DReturn "nil"]);
  ("WithTermWidth",
   [DAssign "a" "o.(*transport.Args)"; DAssign "ok" "ok of o.(*transport.Args)"; DIf (DNot (DAtom "ok")) [DReturn "util.ErrIgnoredOption"] []; DAssign "a.TermWidth" "i"; DReturn "nil"]);
  ("WithTimeoutSocket",
   [DAssign "a" "o.(*transport.Args)"; DAssign "ok" "ok of o.(*transport.Args)"; DIf (DNot (DAtom "ok")) [DReturn "util.ErrIgnoredOption"] []; DAssign "a.TimeoutSocket" "t"; DReturn "nil"]);
  ("WithFileTransportFile",
   [DAssign "t" "o.(*transport.File)"; DAssign "ok" "ok of o.(*transport.File)"; DIf (DNot (DAtom "ok")) [DReturn "util.ErrIgnoredOption"] []; DAssign "t.F" "s"; DReturn "nil"]);
  ("WithAuthPrivateKey",
   [DAssign "a" "o.(*transport.SSHArgs)"; DAssign "ok" "ok of o.(*transport.SSHArgs)"; DIf (DNot (DAtom "ok")) [DReturn "util.ErrIgnoredOption"] []; DAssign "a.PrivateKeyPath" "ks"; DAssign "a.PrivateKeyPassPhrase" "ps"; DReturn "nil"]);
  ("WithAuthNoStrictKey",
   [DAssign "a" "o.(*transport.SSHArgs)"; DAssign "ok" "ok of o.(*transport.SSHArgs)"; DIf (DNot (DAtom "ok")) [DReturn "util.ErrIgnoredOption"] []; DAssign "a.StrictKey" "false"; DReturn "nil"]);
  ("WithSSHConfigFile",
   [DAssign "a" "o.(*transport.SSHArgs)"; DAssign "ok" "ok of o.(*transport.SSHArgs)"; DIf (DNot (DAtom "ok")) [DReturn "util.ErrIgnoredOption"] []; DCall "util.ResolveFilePath(s)"; DIf (DNot (DEq "err" "nil")) [DReturn "util.ErrFileNotFoundError"] []; DAssign "a.ConfigFile" "sshF"; DReturn "nil"]);
  ("WithSSHConfigFileSystem",
   [DAssign "a" "o.(*transport.SSHArgs)"; DAssign "ok" "ok of o.(*transport.SSHArgs)"; DIf (DNot (DAtom "ok")) [DReturn "util.ErrIgnoredOption"] []; DCall "util.ResolveFilePath(""~/.ssh/config"")"; DIf (DEq "err" "nil") [DAssign "a.ConfigFile" "sshF"; DReturn "nil"] []; DCall "util.ResolveFilePath(""/etc/ssh/ssh_config"")"; DIf (DEq "err" "nil") [DAssign "a.ConfigFile" "sshF"; DReturn "nil"] []; DReturn "error"]);
  ("WithSSHKnownHostsFile",
   [DAssign "a" "o.(*transport.SSHArgs)"; DAssign "ok" "ok of o.(*transport.SSHArgs)"; DIf (DNot (DAtom "ok")) [DReturn "util.ErrIgnoredOption"] []; DCall "util.ResolveFilePath(s)"; DIf (DNot (DEq "err" "nil")) [DReturn "util.ErrFileNotFoundError"] []; DAssign "a.KnownHostsFile" "sshF"; DReturn "nil"]);
  ("WithSSHKnownHostsFileSystem",
   [DAssign "a" "o.(*transport.SSHArgs)"; DAssign "ok" "ok of o.(*transport.SSHArgs)"; DIf (DNot (DAtom "ok")) [DReturn "util.ErrIgnoredOption"] []; DCall "util.ResolveFilePath(""~/.ssh/known_hosts"")"; DIf (DEq "err" "nil") [DAssign "a.KnownHostsFile" "sshF"; DReturn "nil"] []; DCall "util.ResolveFilePath(""/etc/ssh/ssh_known_hosts"")"; DIf (DEq "err" "nil") [DAssign "a.KnownHostsFile" "sshF"; DReturn "nil"] []; DReturn "error"]);
  ("WithStandardTransportExtraCiphers",
   [DAssign "t" "o.(*transport.Standard)"; DAssign "ok" "ok of o.(*transport.Standard)"; DIf (DNot (DAtom "ok")) [DReturn "util.ErrIgnoredOption"] []; DAssign "t.ExtraCiphers" "l"; DReturn "nil"]);
  ("WithStandardTransportExtraKexs",
   [DAssign "t" "o.(*transport.Standard)"; DAssign "ok" "ok of o.(*transport.Standard)"; DIf (DNot (DAtom "ok")) [DReturn "util.ErrIgnoredOption"] []; DAssign "t.ExtraKexs" "l"; DReturn "nil"]);
  ("WithSystemTransportOpenBin",
   [DAssign "t" "o.(*transport.System)"; DAssign "ok" "ok of o.(*transport.System)"; DIf (DNot (DAtom "ok")) [DReturn "util.ErrIgnoredOption"] []; DAssign "t.OpenBin" "s"; DReturn "nil"]);
  ("WithSystemTransportOpenArgs",
   [DAssign "t" "o.(*transport.System)"; DAssign "ok" "ok of o.(*transport.System)"; DIf (DNot (DAtom "ok")) [DReturn "util.ErrIgnoredOption"] []; DAssign "t.ExtraArgs" "append(t.ExtraArgs, l...)"; DReturn "nil"]);
  ("WithSystemTransportOpenArgsOverride",
   [DAssign "t" "o.(*transport.System)"; DAssign "ok" "ok of o.(*transport.System)"; DIf (DNot (DAtom "ok")) [DReturn "util.ErrIgnoredOption"] []; DAssign "t.OpenArgs" "l"; DReturn "nil"])].
(* driver/network/acquirepriv.go Driver.determineCurrentPriv *)
Definition determine_current_priv_code : list dstmt :=
  [DRange "priv" "d.PrivilegeLevels" [DIf (DAtom "util.StringContainsAny(currentPrompt, priv.NotContains)") [DContinue] []; DIf (DAtom "priv.patternRe.MatchString(currentPrompt)") [DAssign "possiblePrivs" "append(possiblePrivs, priv.Name)"] []]; DIf (DEq "len(possiblePrivs)" "0") [DReturn "nil, fmt.Errorf( ""%w: could not determine privilege level from prompt '%s'"", util.ErrPrivilegeError, currentPrompt, )"] []; DReturn "possiblePrivs, nil"].
(* channel/read.go getProcessReadBufSearchDepth *)
Definition search_depth_code : list dstmt :=
  [DAssign "finalSearchDepth" "promptSearchDepth"; DAssign "possibleSearchDepth" "inputSearchDepthMultiplier * inputLen"; DIf (DAtom "possibleSearchDepth > finalSearchDepth") [DAssign "finalSearchDepth" "possibleSearchDepth"] []; DReturn "finalSearchDepth"].
(* channel/read.go processReadBuf *)
Definition process_read_buf_code : list dstmt :=
  [DIf (DAtom "len(rb) <= searchDepth") [DReturn "rb"] []; DAssign "prb" "rb[len(rb)-searchDepth:]"; DAssign "partitionIdx" "bytes.Index(prb, []byte(""\n""))"; DIf (DAtom "partitionIdx > 0") [DAssign "prb" "prb[partitionIdx:]"] []; DReturn "prb"].
(* driver/netconf/message.go message.serialize, its parameters, and the arguments of its one call in Driver.sendRPC *)
Definition serialize_code : list dstmt :=
  [DAssign "serialized" "&serializedInput{}"; DCall "xml.Marshal(m)"; DIf (DNot (DEq "err" "nil")) [DReturn "nil, err"] []; DIf (DNot (DAtom "excludeHeader")) [DAssign "msg" "append([]byte(xmlHeader), msg...)"] []; DIf (DAtom "forceSelfClosingTags") [DAssign "msg" "ForceSelfClosingTags(msg)"] []; DAssign "serialized.rawXML" "make([]byte, len(msg))"; DCall "copy(serialized.rawXML, msg)"; DSwitch "v" [(["V1Dot0"], [DAssign "msg" "append(msg, []byte(v1Dot0Delim)...)"]); (["V1Dot1"], [DAssign "msg" "append([]byte(fmt.Sprintf(""#%d\n"", len(msg))), msg...)"; DAssign "msg" "append(msg, []byte(""\n##"")...)"])]; DAssign "serialized.framedXML" "msg"; DReturn "serialized, nil"].
Definition serialize_params : list string := ["v"; "forceSelfClosingTags"; "excludeHeader"].
Definition serialize_call_args : list string := ["d.SelectedVersion"; "d.ForceSelfClosingTags"; "d.ExcludeHeader"].
(* driver/netconf/capabilities.go Driver.ServerHasCapability *)
Definition server_has_capability_code : list dstmt :=
  [DRange "serverCapability" "d.serverCapabilities" [DIf (DEq "serverCapability" "s") [DReturn "true"] []]; DReturn "false"].
(* channel/sendinteractive.go Channel.sendInteractive *)
Definition send_interactive_code : list dstmt :=
  [DCall "defer close(cr)"; DRange "e" "events" [DAssign "i" "index of e"; DAssign "prompts" "op.CompletePatterns"; DIf (DNot (DEq "e.ChannelResponse" """""")) [DAssign "prompts" "append(prompts, regexp.MustCompile(e.ChannelResponse))"] [DAssign "prompts" "append(prompts, c.PromptPattern)"]; DAssign "err" "c.Write([]byte(e.ChannelInput), e.HideInput)"; DIf (DNot (DEq "err" "nil")) [DCall "cr <- &result{b: nil, err: err}"; DReturn ""] []; DIf (DAnd (DNot (DEq "e.ChannelResponse" """""")) (DNot (DAtom "e.HideInput"))) [DCall "readUntilF(ctx, []byte(e.ChannelInput))"; DIf (DNot (DEq "err" "nil")) [DCall "cr <- &result{b: nil, err: err}"; DReturn ""] []; DAssign "b" "append(b, nb...)"] []; DAssign "err" "c.WriteReturn()"; DIf (DNot (DEq "err" "nil")) [DCall "cr <- &result{b: nil, err: err}"; DReturn ""] []; DCall "c.ReadUntilAnyPrompt(ctx, prompts)"; DIf (DNot (DEq "err" "nil")) [DCall "cr <- &result{b: nil, err: err}"; DReturn ""] []; DAssign "b" "append(b, pb...)"; DIf (DAnd (DAtom "i < len(events)-1") (DAtom "len(op.CompletePatterns) > 0")) [DAssign "done" "false"; DRange "p" "op.CompletePatterns" [DIf (DAtom "p.Match(pb)") [DAssign "done" "true"; DBreak] []]; DIf (DAtom "done") [DBreak] []] []]; DCall "cr <- &result{b: c.processOut(b, false), err: nil}"].
(* channel/sendinput.go Channel.SendInputB *)
Definition send_input_code : list dstmt :=
  [DCall "NewOperation(opts...)"; DIf (DNot (DEq "err" "nil")) [DReturn "nil, err"] []; DAssign "readUntilF" "c.ReadUntilFuzzy"; DIf (DAtom "op.ExactMatchInput") [DAssign "readUntilF" "c.ReadUntilExplicit"] []; DAssign "cr" "make(chan *result)"; DCall "context.WithTimeout(context.Background(), c.GetTimeout(op.Timeout)) -> ctx, cancel"; DCall "defer cancel()"; DRange "go" "once" [DAssign "err" "c.Write(input, false)"; DIf (DNot (DEq "err" "nil")) [DCall "cr <- &result{b: b, err: err}"; DBreak] []; DCall "readUntilF(ctx, input)"; DIf (DNot (DEq "err" "nil")) [DCall "cr <- &result{b: b, err: err}"; DBreak] []; DAssign "err" "c.WriteReturn()"; DIf (DNot (DEq "err" "nil")) [DCall "cr <- &result{b: b, err: err}"; DBreak] []; DIf (DNot (DAtom "op.Eager")) [DIf (DEq "len(op.InterimPromptPatterns)" "0") [DCall "c.ReadUntilPrompt(ctx) -> nb, readErr"] [DAssign "prompts" "[]*regexp.Regexp{c.PromptPattern}"; DAssign "prompts" "append(prompts, op.InterimPromptPatterns...)"; DCall "c.ReadUntilAnyPrompt(ctx, prompts) -> nb, readErr"]; DIf (DNot (DEq "readErr" "nil")) [DCall "cr <- &result{b: b, err: readErr}"; DBreak] []; DAssign "b" "append(b, nb...)"] []; DCall "cr <- &result{ b: c.processOut(b, op.StripPrompt), err: nil, }"]; DAssign "r" "<-cr"; DIf (DNot (DEq "r.err" "nil")) [DIf (DAtom "errors.Is(r.err, context.DeadlineExceeded)") [DReturn "nil, fmt.Errorf( ""%w: channel timeout sending input to device"", util.ErrTimeoutError, )"] []; DReturn "nil, r.err"] []; DReturn "r.b, nil"].
(* driver/generic/sendwithcallbacks.go Driver.executeCallback *)
Definition execute_callback_code : list dstmt :=
  [DAssign "cb" "callbacks[i]"; DIf (DAtom "cb.Once") [DIf (DAtom "cb.triggered") [DReturn "nil, fmt.Errorf( ""%w: callback once set, and callback already triggered"", util.ErrOperationError, )"] []; DAssign "cb.triggered" "true"] []; DIf (DNot (DEq "cb.Callback" "nil")) [DAssign "err" "cb.Callback(d, string(b))"; DIf (DNot (DEq "err" "nil")) [DReturn "nil, err"] []] []; DIf (DAtom "cb.Complete") [DReturn "fb, nil"] []; DIf (DAtom "cb.ResetOutput") [DAssign "b" "nil"] []; DAssign "nt" "t"; DIf (DNot (DEq "cb.NextTimeout" "0")) [DAssign "nt" "cb.NextTimeout"] []; DReturn "d.handleCallbacks(callbacks, b, fb, nt)"].
(* driver/generic/sendwithcallbacks.go Driver.handleCallbacks: the scan over the callbacks *)
Definition callback_scan_code : dstmt :=
  DRange "cb" "callbacks" [DAssign "i" "index of cb"; DIf (DAtom "cb.check(b)") [DCall "c <- &callbackResult{ i: i, callbacks: callbacks, b: b, fb: fb, err: nil, }"; DReturn ""] []].
(* driver/network: SendCommand, SendCommands, SendConfigs *)
Definition net_send_command_code : list dstmt :=
  [DIf (DNot (DEq "d.CurrentPriv" "d.DefaultDesiredPriv")) [DAssign "err" "d.AcquirePriv(d.DefaultDesiredPriv)"; DIf (DNot (DEq "err" "nil")) [DReturn "nil, fmt.Errorf( ""%w: failed acquiring default desired privilege level"", util.ErrPrivilegeError, )"] []] []; DReturn "d.Driver.SendCommand(command, opts...)"].
Definition net_send_commands_code : list dstmt :=
  [DIf (DNot (DEq "d.CurrentPriv" "d.DefaultDesiredPriv")) [DAssign "err" "d.AcquirePriv(d.DefaultDesiredPriv)"; DIf (DNot (DEq "err" "nil")) [DReturn "nil, fmt.Errorf( ""%w: failed acquiring default desired privilege level"", util.ErrPrivilegeError, )"] []] []; DReturn "d.Driver.SendCommands(commands, opts...)"].
Definition net_send_configs_code : list dstmt :=
  [DCall "NewOperation(opts...)"; DIf (DNot (DEq "err" "nil")) [DReturn "nil, err"] []; DAssign "targetPriv" "op.PrivilegeLevel"; DIf (DEq "targetPriv" """""") [DAssign "targetPriv" "defaultConfigurationPrivLevel"] []; DAssign "err" "d.AcquirePriv(targetPriv)"; DIf (DNot (DEq "err" "nil")) [DReturn "nil, err"] []; DReturn "d.Driver.SendCommands(configs, opts...)"].
(* driver/network/acquirepriv.go Driver.AcquirePriv *)
Definition acquire_priv_code : list dstmt :=
  [DAssign "ok" "ok of d.PrivilegeLevels[target]"; DIf (DNot (DAtom "ok")) [DReturn "error"] []; DRange "_" "forever" [DCall "d.Driver.GetPrompt()"; DIf (DNot (DEq "err" "nil")) [DReturn "err"] []; DCall "d.processAcquirePriv( target, currentPrompt, )"; DIf (DNot (DEq "err" "nil")) [DReturn "err"] []; DSwitch "action" [(["noAction"], [DReturn "nil"]); (["escalateAction"], [DAssign "err" "d.escalate(next)"]); (["deescalateAction"], [DAssign "err" "d.deescalate(next)"])]; DIf (DNot (DEq "err" "nil")) [DReturn "err"] []; DCall "count++"; DIf (DAtom "count > len(d.PrivilegeLevels)*2") [DReturn "error"] []]].
(* driver/network/acquirepriv.go Driver.escalate, Driver.deescalate *)
Definition escalate_code : list dstmt :=
  [DAssign "p" "d.PrivilegeLevels[target]"; DIf (DOr (DNot (DAtom "p.EscalateAuth")) (DEq "d.AuthSecondary" """""")) [DIf (DEq "d.AuthSecondary" """""") [] []; DCall "d.Driver.Channel.SendInput(p.Escalate)"] [DAssign "events" "[]*channel.SendInteractiveEvent{ { ChannelInput: p.Escalate, ChannelResponse: p.EscalatePrompt, HideInput: false, }, { ChannelInput: d.AuthSecondary, ChannelResponse: p.Pattern, HideInput: true, }, }"; DCall "d.Driver.Channel.SendInteractive( events, func(o interface{}) error { a, ok := o.(*channel.OperationOptions) if ok { a.CompletePatterns = []*regexp.Regexp{ d.PrivilegeLevels[p.PreviousPriv].patternRe, p.patternRe, } return nil } return util.ErrIgnoredOption }, )"]; DReturn "err"].
Definition deescalate_code : list dstmt :=
  [DAssign "p" "d.PrivilegeLevels[target]"; DCall "d.Driver.Channel.SendInput(p.Deescalate)"; DReturn "err"].
(* channel/auth.go Channel.authenticateSSH, Channel.authenticateTelnet *)
Definition auth_ssh_code : list dstmt :=
  [DAssign "pCount" "0"; DAssign "ppCount" "0"; DRange "_" "forever" [DIf (DAtom "ready <-ctx.Done()") [DReturn "nil"] []; DCall "c.Read()"; DIf (DNot (DEq "err" "nil")) [DReturn "&result{nil, err}"] []; DIf (DEq "nb" "nil") [DCall "time.Sleep(c.ReadDelay)"; DContinue] []; DAssign "b" "append(b, nb...)"; DAssign "err" "c.sshMessageHandler(b)"; DIf (DNot (DEq "err" "nil")) [DReturn "&result{nil, err}"] []; DIf (DAtom "c.PromptPattern.Match(b)") [DReturn "&result{b, nil}"] []; DIf (DAtom "c.PasswordPattern.Match(b)") [DCall "pCount++"; DIf (DAtom "pCount > passwordSeenMax") [DReturn "&result{ nil, fmt.Errorf( ""%w: password prompt seen multiple times, assuming authentication failed"", util.ErrAuthError, ), }"] []; DAssign "err" "c.WriteAndReturn(p, true)"; DIf (DNot (DEq "err" "nil")) [DReturn "&result{nil, err}"] []; DAssign "b" "[]byte{}"; DContinue] []; DIf (DAtom "c.PassphrasePattern.Match(b)") [DCall "ppCount++"; DIf (DAtom "ppCount > passphraseSeenMax") [DReturn "&result{ nil, fmt.Errorf( ""%w: private key passphrase prompt seen multiple times,""+ "" assuming authentication failed"", util.ErrAuthError, ), }"] []; DAssign "err" "c.WriteAndReturn(pp, true)"; DIf (DNot (DEq "err" "nil")) [DReturn "&result{nil, err}"] []; DAssign "b" "[]byte{}"] []]].
Definition auth_telnet_code : list dstmt :=
  [DAssign "uCount" "0"; DAssign "pCount" "0"; DRange "_" "forever" [DCall "c.ReadUntilAnyPrompt( ctx, []*regexp.Regexp{c.PromptPattern, c.UsernamePattern, c.PasswordPattern}, )"; DIf (DNot (DEq "err" "nil")) [DReturn "&result{nil, err}"] []; DIf (DEq "nb" "nil") [DCall "time.Sleep(c.ReadDelay)"; DContinue] []; DAssign "b" "append(b, nb...)"; DIf (DAtom "c.PromptPattern.Match(b)") [DReturn "&result{b, nil}"] []; DIf (DAtom "c.UsernamePattern.Match(b)") [DAssign "b" "[]byte{}"; DCall "uCount++"; DIf (DAtom "uCount > usernameSeenMax") [DReturn "&result{ nil, fmt.Errorf( ""%w: username prompt seen multiple times, assuming authentication failed"", util.ErrAuthError, ), }"] []; DAssign "err" "c.WriteAndReturn(u, true)"; DIf (DNot (DEq "err" "nil")) [DReturn "&result{nil, err}"] []; DContinue] []; DIf (DAtom "c.PasswordPattern.Match(b)") [DAssign "b" "[]byte{}"; DCall "pCount++"; DIf (DAtom "pCount > passwordSeenMax") [DReturn "&result{ nil, fmt.Errorf( ""%w: password prompt seen multiple times, assuming authentication failed"", util.ErrAuthError, ), }"] []; DAssign "err" "c.WriteAndReturn(p, true)"; DIf (DNot (DEq "err" "nil")) [DReturn "&result{nil, err}"] []] []]].
(* driver/netconf/driver.go Driver.storeMessage, Driver.getMessage *)
Definition store_message_code : list dstmt :=
  [DCall "d.messagesLock.Lock()"; DCall "defer d.messagesLock.Unlock()"; DAssign "d.messages[i]" "b"].
Definition get_message_code : list dstmt :=
  [DCall "d.messagesLock.Lock()"; DCall "defer d.messagesLock.Unlock()"; DAssign "data" "d.messages[i]"; DCall "delete(d.messages, i)"; DReturn "data"].
(* driver/netconf/rpc.go Driver.sendRPC (the polling goroutine as one effect) *)
Definition send_rpc_code : list dstmt :=
  [DIf (DAtom "d.ForceSelfClosingTags") [] []; DCall "m.serialize(d.SelectedVersion, d.ForceSelfClosingTags, d.ExcludeHeader)"; DIf (DNot (DEq "err" "nil")) [DReturn "nil, err"] []; DAssign "r" "response.NewNetconfResponse( serialized.rawXML, serialized.framedXML, d.Transport.GetHost(), d.Transport.GetPort(), d.SelectedVersion, )"; DAssign "err" "d.Channel.WriteAndReturn(serialized.framedXML, false)"; DIf (DNot (DEq "err" "nil")) [DReturn "nil, err"] []; DIf (DEq "d.SelectedVersion" "V1Dot1") [DAssign "err" "d.Channel.WriteReturn()"; DIf (DNot (DEq "err" "nil")) [DReturn "nil, err"] []] []; DAssign "done" "make(chan []byte)"; DCall "context.WithCancel(context.Background()) -> ctx, cancel"; DCall "defer cancel()"; DCall "go func() { defer close(done) var data []byte for { if ctx.Err() != nil { return } data = d.getMessage(m.MessageID) if data != nil { break } time.Sleep(5 * time.Microsecond) } select { case done <- data: case <-ctx.Done(): } }()"; DAssign "timer" "time.NewTimer(d.Channel.GetTimeout(op.Timeout))"; DSwitch "select" [(["err = <-d.errs"], [DReturn "nil, err"]); (["<-timer.C"], [DReturn "nil, fmt.Errorf(""%w: channel timeout sending input to device"", util.ErrTimeoutError)"]); (["data := <-done"], [DCall "r.Record(data)"])]; DReturn "r, nil"].
(* channel/channel.go Channel.Open *)
Definition channel_open_code : list dstmt :=
  [DAssign "err" "c.t.Open()"; DIf (DNot (DEq "err" "nil")) [DReturn "err"] []; DCall "defer func() { if reterr != nil { _ = c.Close() } }()"; DCall "go c.read()"; DIf (DAtom "c.AuthBypass") [DReturn "nil"] []; DAssign "authData" "c.t.InChannelAuthData()"; DSwitch "authData.Type" [(["transport.InChannelAuthSSH"], [DCall "c.AuthenticateSSH( []byte(authData.Password), []byte(authData.PrivateKeyPassPhrase), )"; DIf (DNot (DEq "err" "nil")) [DReturn "err"] []]); (["transport.InChannelAuthTelnet"], [DCall "c.AuthenticateTelnet([]byte(authData.User), []byte(authData.Password))"; DIf (DNot (DEq "err" "nil")) [DReturn "err"] []]); (["transport.InChannelAuthUnsupported"], [])]; DIf (DAtom "len(b) > 0") [DCall "c.Q.Requeue(b)"] []; DReturn "nil"].
(* channel/channel.go Channel.processOut *)
Definition process_out_code : list dstmt :=
  [DAssign "lines" "bytes.Split(b, []byte(""\n""))"; DAssign "cleanLines" "make([][]byte, len(lines))"; DRange "l" "lines" [DAssign "i" "index of l"; DAssign "cleanLines[i]" "bytes.TrimRight(l, "" "")"]; DAssign "b" "bytes.Join(cleanLines, []byte(""\n""))"; DIf (DAtom "strip") [DAssign "b" "c.PromptPattern.ReplaceAll(b, nil)"] []; DAssign "b" "bytes.Trim(b, string(c.ReturnChar))"; DAssign "b" "bytes.Trim(b, ""\n"")"; DReturn "b"].
(* driver/netconf: buildFilterElem, buildDefaultsElem, buildGetElem, buildGetConfigElem *)
Definition nc_filter_elem_code : list dstmt :=
  [DIf (DOr (DEq "filter" """""") (DEq "filterType" """""")) [DReturn "nil, nil"] []; DSwitch "filterType" [(["FilterSubtree"], [DAssign "f" "&filterT{ XMLName: xml.Name{}, Type: filterType, Select: """", Payload: filter, }"]); (["FilterXpath"], [DAssign "f" "&filterT{ XMLName: xml.Name{}, Type: filterType, Select: filter, }"]); ([], [DAssign "err" "fmt.Errorf(""%w: unknown filter type '%s'"", util.ErrNetconfError, filterType)"])]; DReturn "f, err"].
Definition nc_defaults_elem_code : list dstmt :=
  [DIf (DEq "defaultsType" """""") [DReturn "nil, nil"] []; DSwitch "defaultsType" [(["reportAll"; "reportAllTagged"; "trim"; "explicit"], []); ([], [DReturn "nil, fmt.Errorf(""%w: unknown default type '%s'"", util.ErrNetconfError, defaultsType)"])]; DReturn "&defaultType{ XMLName: xml.Name{}, Namespace: defaultNamespace, Type: defaultsType, }, nil"].
Definition nc_get_elem_code : list dstmt :=
  [DCall "d.buildFilterElem(filter, filterType)"; DIf (DNot (DEq "err" "nil")) [DReturn "nil, err"] []; DAssign "getElem" "&get{ XMLName: xml.Name{}, Filter: filterElem, }"; DAssign "netconfInput" "d.buildPayload(getElem)"; DReturn "netconfInput, nil"].
Definition nc_get_config_elem_code : list dstmt :=
  [DCall "d.buildFilterElem(filter, filterType)"; DIf (DNot (DEq "err" "nil")) [DReturn "nil, err"] []; DCall "d.buildDefaultsElem(defaultType)"; DIf (DNot (DEq "err" "nil")) [DReturn "nil, err"] []; DAssign "getConfigElem" "&getConfig{ XMLName: xml.Name{}, Source: d.buildSourceElem(source), Filter: filterElem, Defaults: defaultsElem, }"; DAssign "netconfInput" "d.buildPayload(getConfigElem)"; DReturn "netconfInput, nil"].
(* driver/network/privilege.go Driver.buildPrivGraph, buildJoinedPromptPattern, UpdatePrivileges *)
Definition build_priv_graph_code : list dstmt :=
  [DAssign "d.privGraph" "map[string]map[string]bool{}"; DRange "privLevel" "d.PrivilegeLevels" [DAssign "privLevel.patternRe" "regexp.MustCompile(privLevel.Pattern)"; DAssign "d.privGraph[privLevel.Name]" "map[string]bool{}"; DIf (DNot (DEq "privLevel.PreviousPriv" """""")) [DAssign "d.privGraph[privLevel.Name][privLevel.PreviousPriv]" "true"] []]; DRange "privLevelList" "d.privGraph" [DAssign "higherPrivLevel" "index of privLevelList"; DRange "privLevel" "keys of privLevelList" [DAssign "d.privGraph[privLevel][higherPrivLevel]" "true"]]].
Definition build_joined_code : list dstmt :=
  [DAssign "patterns" "make([]string, 0)"; DRange "priv" "d.PrivilegeLevels" [DAssign "patterns" "append(patterns, priv.Pattern)"]; DAssign "joinedPattern" "strings.Join(patterns, ""|"")"; DAssign "d.Driver.Channel.PromptPattern" "regexp.MustCompile(joinedPattern)"].
Definition update_privileges_code : list dstmt :=
  [DCall "d.buildPrivGraph()"; DCall "d.buildJoinedPromptPattern()"].
(* channel/write.go Channel.Write, WriteReturn, WriteAndReturn (the debug message is an effect here) *)
Definition chan_write_code : list dstmt :=
  [DAssign "lm" "string(b)"; DIf (DAtom "r") [DAssign "lm" "redacted"] []; DCall "c.l.Debugf(""channel write %#v"", lm)"; DReturn "c.t.Write(b)"].
Definition chan_write_return_code : list dstmt :=
  [DReturn "c.Write(c.ReturnChar, false)"].
Definition chan_write_and_return_code : list dstmt :=
  [DAssign "err" "c.Write(b, r)"; DIf (DNot (DEq "err" "nil")) [DReturn "err"] []; DReturn "c.WriteReturn()"].
(* channel/read.go Channel.read (the read loop), Channel.Read, Channel.ReadAll *)
Definition chan_read_loop_code : list dstmt :=
  [DCall "defer c.exitedOnce.Do(func() { close(c.exited) })"; DRange "_" "forever" [DIf (DAtom "ready <-c.done") [DReturn ""] []; DCall "c.t.Read()"; DIf (DNot (DEq "err" "nil")) [DIf (DAtom "ready <-c.done") [DReturn ""] []; DIf (DAtom "errors.Is(err, io.EOF)") [DReturn ""] []; DSwitch "select" [(["c.Errs <- err"], []); (["<-c.done"], [DReturn ""])]; DCall "time.Sleep(c.ReadDelay)"; DContinue] []; DIf (DEq "len(b)" "0") [DCall "time.Sleep(c.ReadDelay)"; DContinue] []; DAssign "b" "bytes.ReplaceAll(b, []byte(""\r""), []byte(""""))"; DIf (DAtom "bytes.Contains(b, []byte(""\x1b""))") [DAssign "b" "util.StripANSI(b)"] []; DCall "c.Q.Enqueue(b)"; DIf (DNot (DEq "c.ChannelLog" "nil")) [DCall "c.ChannelLog.Write(b)"; DIf (DNot (DEq "err" "nil")) [] []] []; DCall "time.Sleep(c.ReadDelay)"]].
Definition chan_read_code : list dstmt :=
  [DSwitch "select" [(["err := <-c.Errs"], [DReturn "nil, err"]); ([], [])]; DIf (DAtom "ready <-c.exited") [DReturn "nil, util.ErrConnectionError"] []; DAssign "b" "c.Q.Dequeue()"; DIf (DEq "b" "nil") [DReturn "nil, nil"] []; DReturn "b, nil"].
Definition chan_read_all_code : list dstmt :=
  [DSwitch "select" [(["err := <-c.Errs"], [DReturn "nil, err"]); ([], [])]; DAssign "b" "c.Q.DequeueAll()"; DIf (DEq "b" "nil") [DReturn "nil, nil"] []; DReturn "b, nil"].
(* driver/netconf/read.go Driver.read (the NETCONF read loop) *)
Definition nc_read_code : list dstmt :=
  [DRange "_" "forever" [DIf (DAtom "ready <-d.done") [DReturn ""] []; DCall "d.Channel.Read()"; DIf (DNot (DEq "err" "nil")) [DSwitch "select" [(["d.errs <- err"], []); (["<-d.done"], [DReturn ""])]] []; DAssign "b" "append(b, rb...)"; DIf (DAtom "d.Channel.PromptPattern.Match(b)") [DIf (DAtom "bytes.Contains(b, []byte(""</rpc>""))") [DSwitch "d.SelectedVersion" [(["V1Dot0"], [DAssign "ss" "patterns.v1Dot0Delim.Split(string(b), endRPCSplitLen)"]); (["V1Dot1"], [DAssign "ss" "patterns.v1Dot1Delim.Split(string(b), endRPCSplitLen)"])]; DAssign "b" "[]byte(ss[1])"] [DIf (DAtom "d.Channel.PromptPattern.Match(b)") [DAssign "messageID" "zero int"; DAssign "subID" "zero int"; DAssign "messageID" "getID(patterns.messageID.FindSubmatch(b))"; DIf (DAtom "bytes.Contains(b, []byte(""</subscription-id>""))") [DAssign "subID" "getID(patterns.subscriptionID.FindSubmatch(b))"] []; DIf (DNot (DEq "messageID" "0")) [DCall "d.storeMessage(messageID, b)"] []; DIf (DNot (DEq "subID" "0")) [DCall "d.storeSubscriptionMessage(subID, b)"] []; DAssign "b" "nil"] []]] []; DCall "time.Sleep(d.Channel.ReadDelay)"]].
(* transport/standard.go Standard.openSession, Standard.Close *)
Definition std_open_session_code : list dstmt :=
  [DCall "ssh.Dial( tcp, fmt.Sprintf(""%s:%d"", a.Host, a.Port), cfg, )"; DIf (DNot (DEq "err" "nil")) [DReturn "err"] []; DCall "t.client.NewSession()"; DIf (DNot (DEq "err" "nil")) [DReturn "err"] []; DCall "t.session.StdinPipe()"; DIf (DNot (DEq "err" "nil")) [DReturn "err"] []; DCall "t.session.StdoutPipe()"; DIf (DNot (DEq "err" "nil")) [DReturn "err"] []; DReturn "nil"].
Definition std_close_code : list dstmt :=
  [DIf (DNot (DEq "t.session" "nil")) [DAssign "sessionErr" "t.session.Close()"; DAssign "t.session" "nil"] []; DIf (DNot (DEq "t.client" "nil")) [DAssign "err" "t.client.Close()"; DIf (DNot (DEq "err" "nil")) [DReturn "err"] []; DAssign "t.client" "nil"] []; DReturn "sessionErr"].
(* response/netconf.go NetconfResponse.record1dot1Chunks, record1dot1, Record *)
Definition record_chunks_code : list dstmt :=
  [DAssign "d" "bytes.TrimSpace(r.RawResult)"; DIf (DOr (DEq "len(d)" "0") (DNot (DEq "d[0]" "byte('#')"))) [DReturn "errNetconf1Dot1ParseError( ""unable to parse netconf response: no chunk marker at start of data"", )"] []; DAssign "terminated" "false"; DRange "_" "while" [DIf (DNot (DAtom "cursor < len(d)")) [DBreak] []; DIf (DEq "d[cursor]" "byte('\n')") [DCall "cursor++"; DContinue] []; DIf (DNot (DEq "d[cursor]" "byte('#')")) [DReturn "errNetconf1Dot1ParseError(fmt.Sprintf( ""unable to parse netconf response: chunk marker missing, got '%s'"", string(d[cursor])))"] []; DCall "cursor++"; DIf (DAtom "cursor >= len(d)") [DReturn "errNetconf1Dot1ParseError( ""unable to parse netconf response: data ends after chunk marker"", )"] []; DIf (DEq "d[cursor]" "byte('#')") [DAssign "terminated" "true"; DBreak] []; DAssign "chunkSizeStr" "zero string"; DAssign "chunkSizeLen" "0"; DRange "_" "while" [DIf (DNot (DAnd (DAtom "chunkSizeLen <= maxChunkSizeCharLen") (DAtom "cursor+chunkSizeLen < len(d)"))) [DBreak] []; DIf (DEq "d[cursor+chunkSizeLen]" "byte('\n')") [DAssign "chunkSizeStr" "string(d[cursor : cursor+chunkSizeLen])"; DCall "cursor += chunkSizeLen + 1"; DBreak] []; DCall "chunkSizeLen++"]; DIf (DEq "chunkSizeStr" """""") [DReturn "errNetconf1Dot1ParseError( ""unable to parse netconf response: failed parsing chunk size"", )"] []; DCall "strconv.Atoi(chunkSizeStr)"; DIf (DNot (DEq "err" "nil")) [DReturn "errNetconf1Dot1ParseError( fmt.Sprintf( ""unable to parse netconf response: unable to parse chunk size '%s': %s"", chunkSizeStr, err, ), )"] []; DIf (DOr (DAtom "chunkSize < 0") (DAtom "chunkSize > len(d)-cursor")) [DReturn "errNetconf1Dot1ParseError( fmt.Sprintf( ""unable to parse netconf response: chunk size '%d' exceeds received data"", chunkSize, ), )"] []; DAssign "joined" "append(joined, d[cursor:cursor+chunkSize]...)"; DCall "cursor += chunkSize"]; DIf (DNot (DAtom "terminated")) [DReturn "errNetconf1Dot1ParseError( ""unable to parse netconf response: end of chunks marker missing"", )"] []; DAssign "joined" "bytes.TrimPrefix(joined, []byte(xmlHeader))"; DAssign "r.Result" "string(bytes.TrimSpace(joined))"; DReturn "nil"].
Definition record11_code : list dstmt :=
  [DAssign "err" "r.record1dot1Chunks()"; DIf (DNot (DEq "err" "nil")) [DAssign "r.Failed" "&OperationError{ Input: string(r.Input), Output: r.Result, ErrorString: err.Error(), }"] []].
Definition nc_record_code : list dstmt :=
  [DAssign "r.EndTime" "time.Now()"; DAssign "r.ElapsedTime" "r.EndTime.Sub(r.StartTime).Seconds()"; DAssign "r.RawResult" "b"; DCall "r.recordRPCErrors(r.RawResult)"; DSwitch "r.NetconfVersion" [(["v1Dot0"], [DCall "r.record1dot0()"]); (["v1Dot1"], [DCall "r.record1dot1()"; DIf (DEq "r.Failed" "nil") [DCall "r.recordRPCErrors([]byte(r.Result))"] []])]].
Definition record10_code : list dstmt :=
  [DAssign "b" "r.RawResult"; DAssign "b" "bytes.TrimPrefix(b, []byte(xmlHeader))"; DAssign "b" "bytes.TrimSuffix(bytes.TrimSpace(b), []byte(v1Dot0Delim))"; DAssign "r.Result" "string(bytes.TrimSpace(b))"].
Definition record_rpc_errors_code : list dstmt :=
  [DIf (DNot (DAtom "util.ByteContainsAny(b, r.FailedWhenContains)")) [DReturn ""] []; DAssign "r.Failed" "&OperationError{ Input: string(r.Input), Output: r.Result, ErrorString: string(patterns.rpcErrors.Find(b)), }"; DRange "rpcerr" "patterns.rpcSingleErrors.FindAll(b, -1)" [DAssign "errStr" "string(rpcerr)"; DIf (DAtom "strings.Contains(errStr, ""<error-severity>error</error-severity>"")") [DAssign "r.ErrorMessages" "append(r.ErrorMessages, errStr)"] [DIf (DAtom "strings.Contains(errStr, ""<error-severity>warning</error-severity>"")") [DAssign "r.WarningErrorMessages" "append(r.WarningErrorMessages, errStr)"] []]]].
(* channel/read.go: the read-until functions *)
Definition read_until_code : list (string * list dstmt) := [
  ("Channel.ReadUntilFuzzy",
   [DIf (DEq "len(b)" "0") [DReturn "nil, nil"] []; DRange "_" "forever" [DIf (DAtom "ready <-ctx.Done()") [DReturn "nil, ctx.Err()"] []; DCall "c.Read()"; DIf (DNot (DEq "err" "nil")) [DReturn "nil, err"] []; DIf (DEq "nb" "nil") [DCall "time.Sleep(c.ReadDelay)"; DContinue] []; DAssign "rb" "append(rb, nb...)"; DIf (DAtom "util.BytesRoughlyContains( b, processReadBuf(rb, getProcessReadBufSearchDepth(c.PromptSearchDepth, len(b))), )") [DReturn "rb, nil"] []]]);
  ("Channel.ReadUntilExplicit",
   [DIf (DEq "len(b)" "0") [DReturn "nil, nil"] []; DRange "_" "forever" [DIf (DAtom "ready <-ctx.Done()") [DReturn "nil, ctx.Err()"] []; DCall "c.Read()"; DIf (DNot (DEq "err" "nil")) [DReturn "nil, err"] []; DIf (DEq "nb" "nil") [DCall "time.Sleep(c.ReadDelay)"; DContinue] []; DAssign "rb" "append(rb, nb...)"; DIf (DAtom "bytes.Contains( processReadBuf(rb, getProcessReadBufSearchDepth(c.PromptSearchDepth, len(b))), b, )") [DReturn "rb, nil"] []]]);
  ("Channel.ReadUntilPrompt",
   [DRange "_" "forever" [DIf (DAtom "ready <-ctx.Done()") [DReturn "nil, ctx.Err()"] []; DCall "c.Read()"; DIf (DNot (DEq "err" "nil")) [DReturn "nil, err"] []; DIf (DEq "nb" "nil") [DCall "time.Sleep(c.ReadDelay)"; DContinue] []; DAssign "rb" "append(rb, nb...)"; DIf (DAtom "c.PromptPattern.Match(processReadBuf(rb, c.PromptSearchDepth))") [DReturn "rb, nil"] []]]);
  ("Channel.ReadUntilAnyPrompt",
   [DRange "_" "forever" [DIf (DAtom "ready <-ctx.Done()") [DReturn "nil, ctx.Err()"] []; DCall "c.Read()"; DIf (DNot (DEq "err" "nil")) [DReturn "nil, err"] []; DIf (DEq "nb" "nil") [DCall "time.Sleep(c.ReadDelay)"; DContinue] []; DAssign "rb" "append(rb, nb...)"; DAssign "prb" "processReadBuf(rb, c.PromptSearchDepth)"; DRange "p" "prompts" [DIf (DAtom "p.Match(prb)") [DReturn "rb, nil"] []]]])].
(* the option loops of the constructors (C19) *)
Definition option_loops : list (string * dstmt) := [
  ("driver/generic/driver.go NewDriver",
   DRange "option" "opts" [DAssign "err" "option(d)"; DIf (DNot (DEq "err" "nil")) [DIf (DNot (DAtom "errors.Is(err, util.ErrIgnoredOption)")) [DReturn "nil, err"] []] []]);
  ("driver/network/driver.go NewDriver",
   DRange "option" "opts" [DAssign "err" "option(d)"; DIf (DNot (DEq "err" "nil")) [DIf (DNot (DAtom "errors.Is(err, util.ErrIgnoredOption)")) [DReturn "nil, err"] []] []]);
  ("driver/netconf/driver.go NewDriver",
   DRange "option" "opts" [DAssign "err" "option(d)"; DIf (DNot (DEq "err" "nil")) [DIf (DNot (DAtom "errors.Is(err, util.ErrIgnoredOption)")) [DReturn "nil, err"] []] []]);
  ("transport/factory.go NewTransport",
   DRange "option" "options" [DAssign "err" "option(i)"; DIf (DNot (DEq "err" "nil")) [DIf (DNot (DAtom "errors.Is(err, util.ErrIgnoredOption)")) [DReturn "nil, err"] []] []]);
  ("transport/transport.go NewArgs",
   DRange "option" "options" [DAssign "err" "option(a)"; DIf (DNot (DEq "err" "nil")) [DIf (DNot (DAtom "errors.Is(err, util.ErrIgnoredOption)")) [DReturn "nil, err"] []] []]);
  ("transport/transport.go NewSSHArgs",
   DRange "option" "options" [DAssign "err" "option(a)"; DIf (DNot (DEq "err" "nil")) [DIf (DNot (DAtom "errors.Is(err, util.ErrIgnoredOption)")) [DReturn "nil, err"] []] []]);
  ("transport/transport.go NewTelnetArgs",
   DRange "option" "options" [DAssign "err" "option(a)"; DIf (DNot (DEq "err" "nil")) [DIf (DNot (DAtom "errors.Is(err, util.ErrIgnoredOption)")) [DReturn "nil, err"] []] []]);
  ("channel/channel.go NewChannel",
   DRange "option" "options" [DAssign "err" "option(c)"; DIf (DNot (DEq "err" "nil")) [DIf (DNot (DAtom "errors.Is(err, util.ErrIgnoredOption)")) [DReturn "nil, err"] []] []])].
(* util/queue.go (C20) *)
Definition queue_code : list (string * list dstmt) := [
  ("NewQueue",
   [DAssign "depthChan" "make(chan int, 1)"; DCall "depthChan <- 0"; DReturn "&Queue{ depthChan: depthChan, lock: &sync.RWMutex{}, }"]);
  ("Queue.Requeue",
   [DCall "q.lock.Lock()"; DCall "defer q.lock.Unlock()"; DAssign "n" "[][]byte{b}"; DAssign "q.queue" "append(n, q.queue...)"; DCall "q.depth++"; DCall "<-q.depthChan"; DCall "q.depthChan <- q.depth"]);
  ("Queue.Enqueue",
   [DCall "q.lock.Lock()"; DCall "defer q.lock.Unlock()"; DAssign "q.queue" "append(q.queue, b)"; DCall "q.depth++"; DCall "<-q.depthChan"; DCall "q.depthChan <- q.depth"]);
  ("Queue.Dequeue",
   [DIf (DEq "q.getDepth()" "0") [DReturn "nil"] []; DCall "q.lock.Lock()"; DCall "defer q.lock.Unlock()"; DAssign "b" "q.queue[0]"; DAssign "q.queue" "q.queue[1:]"; DCall "q.depth--"; DCall "<-q.depthChan"; DCall "q.depthChan <- q.depth"; DReturn "b"]);
  ("Queue.DequeueAll",
   [DIf (DEq "q.getDepth()" "0") [DReturn "nil"] []; DCall "q.lock.Lock()"; DCall "defer q.lock.Unlock()"; DAssign "b" "q.queue"; DAssign "q.queue" "nil"; DAssign "q.depth" "0"; DCall "<-q.depthChan"; DCall "q.depthChan <- q.depth"; DReturn "bytes.Join(b, []byte{})"]);
  ("Queue.getDepth",
   [DAssign "d" "<-q.depthChan"; DCall "q.depthChan <- d"; DReturn "d"]);
  ("Queue.GetDepth",
   [DCall "q.lock.RLock()"; DCall "defer q.lock.RUnlock()"; DReturn "q.depth"])].
