(* CloseDefs.v -- C07: scenarios in scope, the predicates evaluated on the reachable sets and the
   sharding of the computation (CloseShardNN.v).  Theorems: CloseLemmas.v. *)
From Scrapli Require Import Conc Close.
From Coq Require Import List Arith Bool Lia.
Import ListNotations.

Definition FUEL := 4000.      (* BFS levels; the flag returned by [reach] says whether it sufficed *)
Definition EF_FUEL := 4000.   (* rounds of backward reachability (it stops at its fixpoint) *)

(* Which scenarios are verified.  Everything except: NETCONF with BOTH a second Close and an RPC in
   flight while the connection is also changing — that product has > 10^5 states; the two features
   are verified separately there and together in the static connection states. *)
Definition static_state (st : cstate) : bool :=
  match st with StBlocked | StEOF | StIOErr => true | _ => false end.
Definition in_scope (sc : scenario) : bool :=
  negb (is_nc (sc_kind sc) && sc_second sc && sc_user sc) || static_state (sc_state sc).

Definition scenarios : list scenario := filter in_scope all_scenarios.

Lemma scenarios_complete : forall sc, in_scope sc = true -> In sc scenarios.
Proof.
  intros sc H. apply filter_In. split; [apply all_scenarios_complete|exact H].
Qed.

(* ---------- the predicates evaluated on the reachable set ---------- *)

Definition is_block (tc : tcb) : bool := match tc with TcBlock => true | _ => false end.

Definition p_no_panic (s : state) : bool := Nat.eqb (panic s) 0.

Definition p_tclosed (sc : scenario) (s : state) : bool :=
  implb (some_closer_returned sc s) (transport_closed s).

(* in a state where nobody can move any more and all Close calls have returned: every goroutine
   of the connection is gone — except, for a transport whose blocked read does not return on
   close, the reader inside that read *)
Definition thread_gone (sc : scenario) (s : state) (t : tid) : bool :=
  exited_at (sys_of sc) s t
  || (is_block (sc_tc sc) && Nat.eqb t T_READER && reader_in_read s).

Definition p_no_leak (sc : scenario) (e : state * list state) : bool :=
  match snd e with
  | [] => implb (closers_returned sc (fst e))
                (forallb (thread_gone sc (fst e)) [T_READER; T_USER; T_RPC; T_POLLER])
  | _ => true
  end.

(* the graceful path of Transport.Close (the one that takes implLock) is only entered after the
   reader goroutine has returned — so it can never wait for a lock held by a blocked read *)
Definition in_graceful (sc : scenario) (s : state) (t : tid) : bool :=
  let b := if is_nc (sc_kind sc) then 2 else 0 in
  Nat.leb (b + 2) (pc_of s t) && Nat.leb (pc_of s t) (b + 4).
Definition p_graceful (sc : scenario) (s : state) : bool :=
  implb (in_graceful sc s T_CLOSER1 || (sc_second sc && in_graceful sc s T_CLOSER2))
        (exited_at (sys_of sc) s T_READER).

Definition all_gone (sc : scenario) (s : state) : bool :=
  closers_returned sc s && forallb (exited_at (sys_of sc) s) [T_READER; T_USER; T_RPC; T_POLLER].

Definition CLOSER_BOUND := 8.   (* number of program points of the longest closer *)

Definition ok_on (sc : scenario) (rs : list state) : bool :=
  let sy := sys_of sc in
  let es := edges sy rs in
  check_closed sy rs
  && forallb p_no_panic rs
  && (forallb (p_tclosed sc) rs && forallb (p_graceful sc) rs)
  && check_ef es (closers_returned sc) EF_FUEL
  && (check_mono es T_CLOSER1 && check_mono es T_CLOSER2
      && forallb (fun s => Nat.leb (pc_of s T_CLOSER1) CLOSER_BOUND
                           && Nat.leb (pc_of s T_CLOSER2) CLOSER_BOUND) rs)
  && forallb (p_no_leak sc) es
  && (is_block (sc_tc sc) || check_ef es (all_gone sc) EF_FUEL).

Definition reach_of (sc : scenario) : list state := fst (reach (sys_of sc) FUEL).
Definition scenario_ok (sc : scenario) : bool := ok_on sc (reach_of sc).

(* state counts (printed by props/C07.v) *)
Definition state_count (sc : scenario) : nat * bool :=
  let r := reach (sys_of sc) FUEL in (length (fst r), snd r).


(* ---------- sharding of THE computation (one file per shard, compiled in parallel) ---------- *)
Definition tc_ix (tc : tcb) : nat := match tc with TcEOF => 0 | TcErr => 1 | TcBlock => 2 end.
Definition shard_of (sc : scenario) : nat :=
  let t := tc_ix (sc_tc sc) in
  match sc_kind sc, sc_second sc, sc_user sc with
  | NETCONF, false, true => match sc_state sc with StAny => 1 + t | _ => 4 + t end
  | NETCONF, true, false => 7 + t
  | NETCONF, true, true => 10 + t
  | _, _, _ => 0
  end.
Definition NSHARDS := 13.
Definition shard (i : nat) : list scenario := filter (fun sc => Nat.eqb (shard_of sc) i) scenarios.

Lemma shard_of_bound : forall sc, shard_of sc < NSHARDS.
Proof. intros [k st tc b2 u]. destruct k, st, tc, b2, u; cbv; repeat constructor. Qed.

Lemma by_shard : forall i, forallb (fun sc => ok_on sc (reach_of sc)) (shard i) = true ->
  forall sc, In sc scenarios -> shard_of sc = i -> ok_on sc (reach_of sc) = true.
Proof.
  intros i H sc Hin Hi.
  apply (proj1 (forallb_forall _ _) H). apply filter_In. split; [exact Hin|].
  apply Nat.eqb_eq. exact Hi.
Qed.
