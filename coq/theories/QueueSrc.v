(* QueueSrc.v — the methods of util/queue.go as the source has them on this run (translated
   statement by statement by gen/decide.go into GeneratedSkel.queue_code) perform, in order, exactly
   the actions that the transitions of the small-step model Queue.v stand for (C20).

   The model's granularity is "every lock operation and every operation on the depth mailbox is one
   atomic step; the slice/depth mutation happens together with acquiring the lock".  [prod_acts] and
   [cons_acts] spell out, per program counter, the actions of the transition LEAVING it; the
   theorem says the translated method is the concatenation of those, in the model's order.  A change
   that reorders a lock and a mailbox operation, drops one, or mutates something else breaks it. *)
From Scrapli Require Import DecideLang GeneratedSkel Queue.
From Coq Require Import String List Bool.
Import ListNotations.
Open Scope string_scope.

Inductive qact :=
| QLock | QDeferUnlock | QRLock | QDeferRUnlock
| QTakeBox            (* <-q.depthChan *)
| QPutBoxDepth        (* q.depthChan <- q.depth *)
| QPeekTake           (* d := <-q.depthChan *)
| QPeekPut            (* q.depthChan <- d *)
| QAppendBack         (* q.queue = append(q.queue, b) *)
| QMakeOne | QPushFront   (* n := [][]byte{b}; q.queue = append(n, q.queue...) *)
| QIncDepth | QDecDepth
| QReadFront | QPopFront  (* b := q.queue[0]; q.queue = q.queue[1:] *)
| QReadAll | QClear | QZeroDepth
| QMakeBox | QInitBox0
| QUnknown (k v : string).

Definition act_table : list (string * string * qact) := [
  ("!call", "q.lock.Lock()", QLock); ("!call", "defer q.lock.Unlock()", QDeferUnlock);
  ("!call", "q.lock.RLock()", QRLock); ("!call", "defer q.lock.RUnlock()", QDeferRUnlock);
  ("!call", "<-q.depthChan", QTakeBox); ("!call", "q.depthChan <- q.depth", QPutBoxDepth);
  ("d", "<-q.depthChan", QPeekTake); ("!call", "q.depthChan <- d", QPeekPut);
  ("q.queue", "append(q.queue, b)", QAppendBack);
  ("n", "[][]byte{b}", QMakeOne); ("q.queue", "append(n, q.queue...)", QPushFront);
  ("!call", "q.depth++", QIncDepth); ("!call", "q.depth--", QDecDepth);
  ("b", "q.queue[0]", QReadFront); ("q.queue", "q.queue[1:]", QPopFront);
  ("b", "q.queue", QReadAll); ("q.queue", "nil", QClear); ("q.depth", "0", QZeroDepth);
  ("depthChan", "make(chan int, 1)", QMakeBox); ("!call", "depthChan <- 0", QInitBox0)].

Fixpoint act_lookup (t : list (string * string * qact)) (k v : string) : qact :=
  match t with
  | [] => QUnknown k v
  | (k', v', a) :: rest => if String.eqb k k' && String.eqb v v' then a else act_lookup rest k v
  end.

(* a run of a method: the only test any method makes is `q.getDepth() == 0` *)
Definition q_env (peek_zero : bool) : denv :=
  mkEnv (fun _ => false)
        (fun a b => String.eqb a "q.getDepth()" && String.eqb b "0" && peek_zero)
        (fun _ => "") (fun _ => None) (fun _ _ _ => None).

Definition method_code (name : string) : list dstmt :=
  match find (fun e => String.eqb (fst e) name) queue_code with Some e => snd e | None => [DOther "no such method"] end.

(* (actions in order, value returned — None when the method has no result) *)
Definition q_run (name : string) (peek_zero : bool) : option (list qact * option string) :=
  match DecideLang.exec 30 (q_env peek_zero) (method_code name) [] with
  | Returned st v => Some (map (fun kv => act_lookup act_table (fst kv) (snd kv)) (rev st), Some v)
  | Running st => Some (map (fun kv => act_lookup act_table (fst kv) (snd kv)) (rev st), None)
  | Stuck | Cont _ | Brk _ => None
  end.

(* ---- what the model's transitions stand for ---- *)

(* producer (Enqueue), by the pc the transition leaves; PPutBox -> PIdle is the deferred Unlock *)
Definition prod_acts (pc : ppc) : list qact :=
  match pc with
  | PIdle => [QLock; QDeferUnlock; QAppendBack; QIncDepth]
  | PHaveLock => [QTakeBox]
  | PTookBox => [QPutBoxDepth]
  | PPutBox => []
  end.

(* consumer, by operation and the kind of pc the transition leaves *)
Inductive ckind := KIdle | KPeekTook | KPeekDone | KHaveLock | KTookBox | KPutBox | KRLocked.
Definition cons_acts (o : cop) (k : ckind) : list qact :=
  match k, o with
  | KIdle, CGetDepth => [QRLock; QDeferRUnlock]
  | KIdle, CRequeue => [QLock; QDeferUnlock; QMakeOne; QPushFront; QIncDepth]
  | KIdle, _ => [QPeekTake]                               (* getDepth: d := <-depthChan *)
  | KPeekTook, _ => [QPeekPut]                            (* getDepth: depthChan <- d; return d *)
  | KPeekDone, CDequeue => [QLock; QDeferUnlock; QReadFront; QPopFront; QDecDepth]
  | KPeekDone, CDequeueAll => [QLock; QDeferUnlock; QReadAll; QClear; QZeroDepth]
  | KPeekDone, _ => []
  | KHaveLock, _ => [QTakeBox]
  | KTookBox, _ => [QPutBoxDepth]
  | KPutBox, _ => []
  | KRLocked, _ => []
  end.

Definition enqueue_prog : list qact := flat_map prod_acts [PIdle; PHaveLock; PTookBox; PPutBox].
Definition requeue_prog : list qact := flat_map (cons_acts CRequeue) [KIdle; KHaveLock; KTookBox; KPutBox].
Definition getdepth_prog : list qact := flat_map (cons_acts CGetDepth) [KIdle; KRLocked].
Definition peek_prog : list qact := flat_map (cons_acts CDequeue) [KIdle; KPeekTook].
Definition take_prog (o : cop) : list qact := flat_map (cons_acts o) [KPeekDone; KHaveLock; KTookBox; KPutBox].

(* THE TIE.  Dequeue/DequeueAll call getDepth first (its two mailbox operations are [peek_prog], the
   model's CIdle -> CPeekTook -> CPeekDone) and return nil without touching anything when it
   answered 0 (the model's CPeekDone with d = 0) *)
Definition queue_src_ok : bool :=
  let eqr (a b : option (list qact * option string)) :=
    match a, b with
    | Some (l1, r1), Some (l2, r2) =>
        (Nat.eqb (List.length l1) (List.length l2))
        && forallb (fun p => match fst p, snd p with
                             | QUnknown _ _, _ | _, QUnknown _ _ => false
                             | x, y => match x, y with
                                       | QLock, QLock | QDeferUnlock, QDeferUnlock | QRLock, QRLock | QDeferRUnlock, QDeferRUnlock
                                       | QTakeBox, QTakeBox | QPutBoxDepth, QPutBoxDepth | QPeekTake, QPeekTake | QPeekPut, QPeekPut
                                       | QAppendBack, QAppendBack | QMakeOne, QMakeOne | QPushFront, QPushFront
                                       | QIncDepth, QIncDepth | QDecDepth, QDecDepth | QReadFront, QReadFront | QPopFront, QPopFront
                                       | QReadAll, QReadAll | QClear, QClear | QZeroDepth, QZeroDepth
                                       | QMakeBox, QMakeBox | QInitBox0, QInitBox0 => true
                                       | _, _ => false
                                       end
                             end) (combine l1 l2)
        && match r1, r2 with
           | None, None => true
           | Some x, Some y => String.eqb x y
           | _, _ => false
           end
    | _, _ => false
    end in
  eqr (q_run "Queue.Enqueue" false) (Some (enqueue_prog, None))
  && eqr (q_run "Queue.Enqueue" true) (Some (enqueue_prog, None))
  && eqr (q_run "Queue.Requeue" false) (Some (requeue_prog, None))
  && eqr (q_run "Queue.getDepth" false) (Some (peek_prog, Some "d"))
  && eqr (q_run "Queue.Dequeue" true) (Some ([], Some "nil"))
  && eqr (q_run "Queue.Dequeue" false) (Some (take_prog CDequeue, Some "b"))
  && eqr (q_run "Queue.DequeueAll" true) (Some ([], Some "nil"))
  && eqr (q_run "Queue.DequeueAll" false) (Some (take_prog CDequeueAll, Some "bytes.Join(b, []byte{})"))
  && eqr (q_run "Queue.GetDepth" false) (Some (getdepth_prog, Some "q.depth"))
  && eqr (q_run "NewQueue" false)
         (Some ([QMakeBox; QInitBox0], Some "&Queue{ depthChan: depthChan, lock: &sync.RWMutex{}, }")).

