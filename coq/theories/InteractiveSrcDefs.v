(* InteractiveSrcDefs.v — the common ground between channel/sendinteractive.go as translated from the
   source (InteractiveSrc.v) and the model Channel.interactive_loop (InteractiveSrcModel.v): the
   sequence of channel primitives an interactive send invokes when every primitive succeeds, as a
   function of per-event flags.  Definitions only. *)
From Scrapli Require Import Bytes Regex PlatformTypes Generated Channel.
From Coq Require Import List Bool Arith.
Import ListNotations.

Inductive act :=
| AWrite (i : nat) (red : bool)      (* c.Write([]byte(e.ChannelInput), e.HideInput) of event i *)
| AEcho (i : nat)                    (* readUntilF(ctx, []byte(e.ChannelInput)) of event i *)
| AReturn                            (* c.WriteReturn() *)
| APrompt (i : nat) (resp : bool)    (* c.ReadUntilAnyPrompt(ctx, prompts): the completion patterns followed by
                                        event i's expected response (resp = true) or the channel's prompt pattern *)
| ADone.                             (* the result is sent: processOut(b, false) *)

(* per event: (has an expected response, input is hidden, a completion pattern matches what the
   event's prompt read returned).  [cn]: the operation has completion patterns at all. *)
Fixpoint iacts (cn : bool) (evs : list (bool * bool * bool)) (i : nat) : list act :=
  match evs with
  | [] => [ADone]
  | (r, h, cm) :: rest =>
      AWrite i h :: (if r && negb h then [AEcho i] else []) ++ [AReturn; APrompt i r]
      ++ match rest with
         | [] => [ADone]
         | _ :: _ => if cn && cm then [ADone] else iacts cn rest (S i)
         end
  end.

(* ---------- model side ---------- *)

(* the primitives a program invokes when every read succeeds with the next of [reads] ([] once they
   are used up) *)
Inductive pact := PW (b : bytes) (red : bool) | PU (c : cond) | PRet | PFail | PNote | PRequeue.

Fixpoint pacts (p : prog bytes) (reads : list bytes) {struct p} : list pact :=
  match p with
  | Ret _ => [PRet]
  | Fail _ => [PFail]
  | Write b red k => PW b red :: pacts k reads
  | Until c k _ => PU c :: match reads with r :: rs => pacts (k r) rs | [] => pacts (k []) [] end
  | Note _ _ k => PNote :: pacts k reads
  | Requeue _ k => PRequeue :: pacts k reads
  end.

Definition is_some {A} (o : option A) : bool := match o with Some _ => true | None => false end.

(* does the echo read of an event consume a read?  (the echo reads return at once for an empty input) *)
Definition echo_reads (o : op_opts) (e : ievent) : bool :=
  is_some (ev_response e) && negb (ev_hidden e)
  && negb (match ev_input e with [] => true | _ => false end).

(* the flags of the events, given what the reads return *)
Fixpoint mflags (o : op_opts) (events : list ievent) (reads : list bytes) : list (bool * bool * bool) :=
  match events with
  | [] => []
  | e :: rest =>
      let reads1 := if echo_reads o e then tl reads else reads in
      let pb := hd [] reads1 in
      (is_some (ev_response e), ev_hidden e, existsb (fun p => rx_match p pb) (o_complete o))
      :: mflags o rest (tl reads1)
  end.

(* an act of the common alphabet as the model's primitives, for the event list [events] *)
Definition act_pacts (cfg : chan_cfg) (o : op_opts) (events : list ievent) (a : act) : list pact :=
  match a with
  | AWrite i red => match nth_error events i with Some e => [PW (ev_input e) red] | None => [] end
  | AEcho i => match nth_error events i with
               | Some e => match ev_input e with
                           | [] => []
                           | _ => [PU (echo_cond o (ev_input e))]
                           end
               | None => []
               end
  | AReturn => [PW (c_ret cfg) false]
  | APrompt i resp =>
      match nth_error events i with
      | Some e => [PU (CAnyPrompt (o_complete o ++ [match ev_response e with Some r => r | None => c_prompt cfg end]))]
      | None => []
      end
  | ADone => [PRet]
  end.

Definition complete_nonempty (o : op_opts) : bool := match o_complete o with [] => false | _ => true end.
