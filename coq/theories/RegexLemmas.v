(* RegexLemmas.v — the fuelled backtracking matcher [m] of Regex.v decides a declarative matching
   relation [matches] (no fuel, no continuations, no captures):
     - soundness:     a [Yes] is a real match                     (m_sound, rx_match_sound)
     - completeness:  a [No] is a real no, whenever fuel suffices (m_complete, rx_no_match_complete)
     - together:      rx_match_iff.
   The relation mirrors the engine's treatment of star-like loops: in the [mn = 0] phase of [RRep] an
   iteration has to consume at least one byte.  [matches_lax_iff] shows that this restriction does
   not remove any match (empty iterations there are redundant). *)
From Scrapli Require Import Bytes Regex.
Local Open Scope nat_scope.

(* ------------------------------------------------------------------------------------------ *)
(* declarative semantics                                                                        *)
(* ------------------------------------------------------------------------------------------ *)

(* the byte before position n of s, when the byte before s itself is prev *)
Definition prev_after (prev : option N) (s : bytes) (n : nat) : option N :=
  match n with O => prev | S j => nth_error s j end.

(* [matches r prev s n]: r matches the first n bytes of s, the byte before s being prev *)
Inductive matches : re -> option N -> bytes -> nat -> Prop :=
| M_eps : forall prev s, matches REps prev s 0
| M_cls : forall rs prev b t, in_ranges b rs = true -> matches (RCls rs) prev (b :: t) 1
| M_cat : forall a b prev s n1 n2,
    matches a prev s n1 ->
    matches b (prev_after prev s n1) (skipn n1 s) n2 ->
    matches (RCat a b) prev s (n1 + n2)
| M_alt_l : forall a b prev s n, matches a prev s n -> matches (RAlt a b) prev s n
| M_alt_r : forall a b prev s n, matches b prev s n -> matches (RAlt a b) prev s n
| M_grp : forall i r prev s n, matches r prev s n -> matches (RGrp i r) prev s n
| M_bol : forall prev s, prev = None \/ prev = Some 10%N -> matches RBol prev s 0
| M_eol : forall prev s, s = [] \/ head_opt s = Some 10%N -> matches REol prev s 0
| M_bot : forall s, matches RBot None s 0
| M_eot : forall prev, matches REot prev [] 0
| M_wordb : forall prev s,
    xorb (is_word_opt prev) (is_word_opt (head_opt s)) = true -> matches RWordB prev s 0
| M_nowordb : forall prev s,
    xorb (is_word_opt prev) (is_word_opt (head_opt s)) = false -> matches RNoWordB prev s 0
(* mandatory iterations (may be empty, as in the engine) *)
| M_rep_S : forall r mn' mx g prev s n1 n2,
    matches r prev s n1 ->
    matches (RRep r mn' (pred_opt mx) g) (prev_after prev s n1) (skipn n1 s) n2 ->
    matches (RRep r (S mn') mx g) prev s (n1 + n2)
(* optional iterations: stop ... *)
| M_rep_0 : forall r mx g prev s, matches (RRep r 0 mx g) prev s 0
(* ... or one more NON-EMPTY iteration, if the upper bound allows *)
| M_rep_more : forall r mx g prev s n1 n2,
    mx <> Some 0 -> n1 > 0 ->
    matches r prev s n1 ->
    matches (RRep r 0 (pred_opt mx) g) (prev_after prev s n1) (skipn n1 s) n2 ->
    matches (RRep r 0 mx g) prev s (n1 + n2).

(* ------------------------------------------------------------------------------------------ *)
(* list / position arithmetic                                                                   *)
(* ------------------------------------------------------------------------------------------ *)

Lemma skipn_add : forall (A : Type) n1 n2 (s : list A), skipn n2 (skipn n1 s) = skipn (n1 + n2) s.
Proof.
  intros A n1; induction n1 as [|n1 IH]; intros n2 s; simpl.
  - reflexivity.
  - destruct s as [|x s]; [destruct n2; reflexivity | apply IH].
Qed.

Lemma nth_error_skipn_add : forall (A : Type) n j (s : list A),
  nth_error (skipn n s) j = nth_error s (n + j).
Proof.
  intros A n; induction n as [|n IH]; intros j s; simpl.
  - reflexivity.
  - destruct s as [|x s]; simpl; [destruct j; reflexivity | apply IH].
Qed.

Lemma prev_after_add : forall prev s n1 n2,
  prev_after (prev_after prev s n1) (skipn n1 s) n2 = prev_after prev s (n1 + n2).
Proof.
  intros prev s n1 n2. destruct n2 as [|j]; simpl.
  - rewrite Nat.add_0_r. reflexivity.
  - rewrite Nat.add_succ_r. simpl. apply nth_error_skipn_add.
Qed.

Lemma last_byte_before_prev_after : forall st s, last_byte_before st s = prev_after None s st.
Proof. intros st s. destruct st; reflexivity. Qed.

Lemma prev_after_cons : forall prev b t d,
  prev_after prev (b :: t) (S d) = prev_after (Some b) t d.
Proof. intros prev b t d. destruct d; reflexivity. Qed.

(* a match never runs past the end of the input *)
Lemma matches_length : forall r prev s n, matches r prev s n -> n <= length s.
Proof.
  intros r prev s n H.
  induction H as
    [ prev s | rs prev b t Hin | a b prev s n1 n2 Ha IHa Hb IHb | a b prev s n Ha IHa
    | a b prev s n Hb IHb | i r prev s n Hr IHr | prev s Hp | prev s Hs | s | prev
    | prev s Hx | prev s Hx | r mn' mx g prev s n1 n2 Hr IHr Hrest IHrest | r mx g prev s
    | r mx g prev s n1 n2 Hmx Hpos Hr IHr Hrest IHrest ];
    simpl; try lia.
  - rewrite skipn_length in IHb. lia.
  - rewrite skipn_length in IHrest. lia.
  - rewrite skipn_length in IHrest. lia.
Qed.

(* ------------------------------------------------------------------------------------------ *)
(* inversion lemmas                                                                             *)
(* ------------------------------------------------------------------------------------------ *)

Lemma matches_eps_inv : forall prev s n, matches REps prev s n -> n = 0.
Proof. intros prev s n H. inversion H; subst; reflexivity. Qed.

Lemma matches_fail_inv : forall prev s n, matches RFail prev s n -> False.
Proof. intros prev s n H. inversion H. Qed.

Lemma matches_cls_inv : forall rs prev s n, matches (RCls rs) prev s n ->
  exists b t, s = b :: t /\ in_ranges b rs = true /\ n = 1.
Proof. intros rs prev s n H. inversion H; subst; eauto. Qed.

Lemma matches_cat_inv : forall a b prev s n, matches (RCat a b) prev s n ->
  exists n1 n2, n = n1 + n2 /\ matches a prev s n1 /\
                matches b (prev_after prev s n1) (skipn n1 s) n2.
Proof. intros a b prev s n H. inversion H; subst; eauto. Qed.

Lemma matches_alt_inv : forall a b prev s n, matches (RAlt a b) prev s n ->
  matches a prev s n \/ matches b prev s n.
Proof. intros a b prev s n H. inversion H; subst; auto. Qed.

Lemma matches_grp_inv : forall i r prev s n, matches (RGrp i r) prev s n -> matches r prev s n.
Proof. intros i r prev s n H. inversion H; subst; auto. Qed.

Lemma matches_bol_inv : forall prev s n, matches RBol prev s n ->
  n = 0 /\ (prev = None \/ prev = Some 10%N).
Proof. intros prev s n H. inversion H; subst; auto. Qed.

Lemma matches_eol_inv : forall prev s n, matches REol prev s n ->
  n = 0 /\ (s = [] \/ head_opt s = Some 10%N).
Proof. intros prev s n H. inversion H; subst; auto. Qed.

Lemma matches_bot_inv : forall prev s n, matches RBot prev s n -> n = 0 /\ prev = None.
Proof. intros prev s n H. inversion H; subst; auto. Qed.

Lemma matches_eot_inv : forall prev s n, matches REot prev s n -> n = 0 /\ s = [].
Proof. intros prev s n H. inversion H; subst; auto. Qed.

Lemma matches_wordb_inv : forall prev s n, matches RWordB prev s n ->
  n = 0 /\ xorb (is_word_opt prev) (is_word_opt (head_opt s)) = true.
Proof. intros prev s n H. inversion H; subst; auto. Qed.

Lemma matches_nowordb_inv : forall prev s n, matches RNoWordB prev s n ->
  n = 0 /\ xorb (is_word_opt prev) (is_word_opt (head_opt s)) = false.
Proof. intros prev s n H. inversion H; subst; auto. Qed.

Lemma matches_rep_S_inv : forall r mn' mx g prev s n, matches (RRep r (S mn') mx g) prev s n ->
  exists n1 n2, n = n1 + n2 /\ matches r prev s n1 /\
                matches (RRep r mn' (pred_opt mx) g) (prev_after prev s n1) (skipn n1 s) n2.
Proof. intros r mn' mx g prev s n H. inversion H; subst; eauto. Qed.

Lemma matches_rep_0_inv : forall r mx g prev s n, matches (RRep r 0 mx g) prev s n ->
  n = 0 \/
  (mx <> Some 0 /\
   exists n1 n2, n = n1 + n2 /\ n1 > 0 /\ matches r prev s n1 /\
                 matches (RRep r 0 (pred_opt mx) g) (prev_after prev s n1) (skipn n1 s) n2).
Proof.
  intros r mx g prev s n H. inversion H; subst.
  - left; reflexivity.
  - right. split; [assumption|]. eauto 8.
Qed.

(* ------------------------------------------------------------------------------------------ *)
(* soundness: a Yes is a real match                                                             *)
(* ------------------------------------------------------------------------------------------ *)

Lemma m_sound : forall fuel r prev pos s c k e c',
  m fuel r prev pos s c k = Yes e c' ->
  exists n c1, matches r prev s n /\ k (prev_after prev s n) (pos + n) (skipn n s) c1 = Yes e c'.
Proof.
  induction fuel as [|f IH]; intros r prev pos s c k e c' H; [discriminate|].
  (* the zero-width step: the continuation was called in place *)
  assert (Hzero : forall c0, matches r prev s 0 -> k prev pos s c0 = Yes e c' ->
            exists n c1, matches r prev s n /\
                         k (prev_after prev s n) (pos + n) (skipn n s) c1 = Yes e c').
  { intros c0 Hm Hk. exists 0, c0. simpl. rewrite Nat.add_0_r. split; assumption. }
  destruct r as [ | | rs | a b | a b | r mn mx g | | | | | | | i r ]; cbn [m] in H.
  - (* REps *) apply (Hzero c); [constructor | exact H].
  - (* RFail *) discriminate.
  - (* RCls *)
    destruct s as [|b t]; [discriminate|].
    destruct (in_ranges b rs) eqn:Hin; [|discriminate].
    exists 1, c. split; [constructor; exact Hin|].
    simpl. rewrite Nat.add_1_r. exact H.
  - (* RCat *)
    apply IH in H. destruct H as (n1 & c1 & Ha & H).
    apply IH in H. destruct H as (n2 & c2 & Hb & H).
    exists (n1 + n2), c2. split; [econstructor; eassumption|].
    rewrite prev_after_add, skipn_add, <- Nat.add_assoc in H. exact H.
  - (* RAlt *)
    destruct (m f a prev pos s c k) as [ | |e0 c0] eqn:Ha; try discriminate.
    + apply IH in H. destruct H as (n & c1 & Hb & H).
      exists n, c1. split; [apply M_alt_r; exact Hb | exact H].
    + inversion H; subst e0 c0; clear H.
      apply IH in Ha. destruct Ha as (n & c1 & Ha & H).
      exists n, c1. split; [apply M_alt_l; exact Ha | exact H].
  - (* RRep *)
    destruct mn as [|mn'].
    + assert (Hloop : forall e1 c1',
                m f r prev pos s c
                  (fun p' pos' s' c'0 =>
                     if Nat.eqb pos' pos then No
                     else m f (RRep r 0 (pred_opt mx) g) p' pos' s' c'0 k) = Yes e1 c1' ->
                mx <> Some 0 ->
                exists n c1, matches (RRep r 0 mx g) prev s n /\
                             k (prev_after prev s n) (pos + n) (skipn n s) c1 = Yes e1 c1').
      { intros e1 c1' Hl Hmx.
        apply IH in Hl. destruct Hl as (n1 & c1 & Hr & Hl).
        destruct (Nat.eqb (pos + n1) pos) eqn:Hpos; [discriminate|].
        apply Nat.eqb_neq in Hpos.
        apply IH in Hl. destruct Hl as (n2 & c2 & Hrest & Hl).
        exists (n1 + n2), c2. split.
        - apply M_rep_more; [exact Hmx | lia | exact Hr | exact Hrest].
        - rewrite prev_after_add, skipn_add, <- Nat.add_assoc in Hl. exact Hl. }
      assert (Hbody :
                (if g
                 then match m f r prev pos s c
                              (fun p' pos' s' c'0 =>
                                 if Nat.eqb pos' pos then No
                                 else m f (RRep r 0 (pred_opt mx) g) p' pos' s' c'0 k) with
                      | No => k prev pos s c
                      | x => x
                      end
                 else match k prev pos s c with
                      | No => m f r prev pos s c
                                (fun p' pos' s' c'0 =>
                                   if Nat.eqb pos' pos then No
                                   else m f (RRep r 0 (pred_opt mx) g) p' pos' s' c'0 k)
                      | x => x
                      end) = Yes e c' ->
                mx <> Some 0 ->
                exists n c1, matches (RRep r 0 mx g) prev s n /\
                             k (prev_after prev s n) (pos + n) (skipn n s) c1 = Yes e c').
      { intros Hb Hmx. destruct g.
        - destruct (m f r prev pos s c _) as [ | |e0 c0] eqn:Hl in Hb; try discriminate.
          + apply (Hzero c); [constructor | exact Hb].
          + inversion Hb; subst e0 c0; clear Hb. apply Hloop; assumption.
        - destruct (k prev pos s c) as [ | |e0 c0] eqn:Hk; try discriminate.
          + apply Hloop; assumption.
          + inversion Hb; subst e0 c0; clear Hb. apply (Hzero c); [constructor | exact Hk]. }
      destruct mx as [[|x]|].
      * apply (Hzero c); [constructor | exact H].
      * apply Hbody; [exact H | discriminate].
      * apply Hbody; [exact H | discriminate].
    + apply IH in H. destruct H as (n1 & c1 & Hr & H).
      apply IH in H. destruct H as (n2 & c2 & Hrest & H).
      exists (n1 + n2), c2. split; [econstructor; eassumption|].
      rewrite prev_after_add, skipn_add, <- Nat.add_assoc in H. exact H.
  - (* RBol *)
    destruct prev as [b|].
    + destruct (N.eqb b 10) eqn:Hb; [|discriminate].
      apply N.eqb_eq in Hb. subst b.
      apply (Hzero c); [constructor; right; reflexivity | exact H].
    + apply (Hzero c); [constructor; left; reflexivity | exact H].
  - (* REol *)
    destruct s as [|b t].
    + apply (Hzero c); [constructor; left; reflexivity | exact H].
    + destruct (N.eqb b 10) eqn:Hb; [|discriminate].
      apply N.eqb_eq in Hb. subst b.
      apply (Hzero c); [constructor; right; reflexivity | exact H].
  - (* RBot *)
    destruct prev as [b|]; [discriminate|].
    apply (Hzero c); [constructor | exact H].
  - (* REot *)
    destruct s as [|b t]; [|discriminate].
    apply (Hzero c); [constructor | exact H].
  - (* RWordB *)
    destruct (xorb (is_word_opt prev) (is_word_opt (head_opt s))) eqn:Hx; [|discriminate].
    apply (Hzero c); [constructor; exact Hx | exact H].
  - (* RNoWordB *)
    destruct (xorb (is_word_opt prev) (is_word_opt (head_opt s))) eqn:Hx; [discriminate|].
    apply (Hzero c); [constructor; exact Hx | exact H].
  - (* RGrp *)
    apply IH in H. destruct H as (n & c1 & Hr & H).
    exists n, ((i, pos, pos + n) :: c1). split; [constructor; exact Hr | exact H].
Qed.

(* ------------------------------------------------------------------------------------------ *)
(* completeness modulo fuel: a No is a real no                                                  *)
(* ------------------------------------------------------------------------------------------ *)

(* capture-insensitive refusal: whether the continuation says No does not depend on the captures
   it is handed (they only decorate a Yes).  The final continuation of [search] never refuses, and
   every continuation [m] builds internally preserves the property ([m_No_caps]). *)
Definition kins (k : kont) : Prop :=
  forall p q t c1 c2, k p q t c1 = No -> k p q t c2 = No.

Lemma kins_final : kins (fun _ e _ c => Yes e c).
Proof. intros p q t c1 c2 H. discriminate. Qed.

Lemma m_No_caps : forall fuel r k, kins k ->
  forall prev pos s c1 c2, m fuel r prev pos s c1 k = No -> m fuel r prev pos s c2 k = No.
Proof.
  induction fuel as [|f IH]; intros r k Hk prev pos s c1 c2 H; [discriminate|].
  destruct r as [ | | rs | a b | a b | r mn mx g | | | | | | | i r ]; cbn [m] in H |- *.
  - (* REps *) eapply Hk; exact H.
  - (* RFail *) reflexivity.
  - (* RCls *)
    destruct s as [|b t]; [reflexivity|].
    destruct (in_ranges b rs); [eapply Hk; exact H | reflexivity].
  - (* RCat *)
    eapply IH; [|exact H].
    intros p q t d1 d2 Hd. eapply IH; [exact Hk | exact Hd].
  - (* RAlt *)
    destruct (m f a prev pos s c1 k) eqn:Ha; try discriminate.
    rewrite (IH a k Hk prev pos s c1 c2 Ha).
    eapply IH; [exact Hk | exact H].
  - (* RRep *)
    assert (Hk' : kins (fun p' pos' s' c' =>
                          if Nat.eqb pos' pos then No
                          else m f (RRep r 0 (pred_opt mx) g) p' pos' s' c' k)).
    { intros p q t d1 d2 Hd. destruct (Nat.eqb q pos); [reflexivity|].
      eapply IH; [exact Hk | exact Hd]. }
    destruct mn as [|mn'].
    + assert (Hbody :
                (if g
                 then match m f r prev pos s c1
                              (fun p' pos' s' c' =>
                                 if Nat.eqb pos' pos then No
                                 else m f (RRep r 0 (pred_opt mx) g) p' pos' s' c' k) with
                      | No => k prev pos s c1
                      | x => x
                      end
                 else match k prev pos s c1 with
                      | No => m f r prev pos s c1
                                (fun p' pos' s' c' =>
                                   if Nat.eqb pos' pos then No
                                   else m f (RRep r 0 (pred_opt mx) g) p' pos' s' c' k)
                      | x => x
                      end) = No ->
                (if g
                 then match m f r prev pos s c2
                              (fun p' pos' s' c' =>
                                 if Nat.eqb pos' pos then No
                                 else m f (RRep r 0 (pred_opt mx) g) p' pos' s' c' k) with
                      | No => k prev pos s c2
                      | x => x
                      end
                 else match k prev pos s c2 with
                      | No => m f r prev pos s c2
                                (fun p' pos' s' c' =>
                                   if Nat.eqb pos' pos then No
                                   else m f (RRep r 0 (pred_opt mx) g) p' pos' s' c' k)
                      | x => x
                      end) = No).
      { intros Hb. destruct g.
        - destruct (m f r prev pos s c1 _) eqn:Hl in Hb; try discriminate.
          rewrite (IH r _ Hk' prev pos s c1 c2 Hl). eapply Hk; exact Hb.
        - destruct (k prev pos s c1) eqn:Hk1; try discriminate.
          rewrite (Hk prev pos s c1 c2 Hk1).
          eapply IH; [exact Hk' | exact Hb]. }
      destruct mx as [[|x]|].
      * eapply Hk; exact H.
      * apply Hbody; exact H.
      * apply Hbody; exact H.
    + eapply IH; [|exact H].
      intros p q t d1 d2 Hd. eapply IH; [exact Hk | exact Hd].
  - (* RBol *)
    destruct prev as [b|]; [destruct (N.eqb b 10); [|reflexivity]|]; eapply Hk; exact H.
  - (* REol *)
    destruct s as [|b t]; [|destruct (N.eqb b 10); [|reflexivity]]; eapply Hk; exact H.
  - (* RBot *)
    destruct prev as [b|]; [reflexivity | eapply Hk; exact H].
  - (* REot *)
    destruct s as [|b t]; [eapply Hk; exact H | reflexivity].
  - (* RWordB *)
    destruct (xorb (is_word_opt prev) (is_word_opt (head_opt s))); [eapply Hk; exact H | reflexivity].
  - (* RNoWordB *)
    destruct (xorb (is_word_opt prev) (is_word_opt (head_opt s))); [reflexivity | eapply Hk; exact H].
  - (* RGrp *)
    eapply IH; [|exact H].
    intros p q t d1 d2 Hd. eapply Hk; exact Hd.
Qed.

Lemma m_complete : forall fuel r prev pos s c k,
  kins k ->
  m fuel r prev pos s c k = No ->
  forall n, matches r prev s n ->
  forall c1, k (prev_after prev s n) (pos + n) (skipn n s) c1 = No.
Proof.
  induction fuel as [|f IH]; intros r prev pos s c k Hk H n Hm c1; [discriminate|].
  (* zero-width match: the continuation was called in place and refused *)
  assert (Hzero : k prev pos s c = No -> k (prev_after prev s 0) (pos + 0) (skipn 0 s) c1 = No).
  { intros H0. simpl. rewrite Nat.add_0_r. eapply Hk; exact H0. }
  destruct r as [ | | rs | a b | a b | r mn mx g | | | | | | | i r ]; cbn [m] in H.
  - (* REps *) apply matches_eps_inv in Hm. subst n. apply Hzero; exact H.
  - (* RFail *) apply matches_fail_inv in Hm. contradiction.
  - (* RCls *)
    apply matches_cls_inv in Hm. destruct Hm as (b & t & Hs & Hin & Hn). subst s n.
    rewrite Hin in H. simpl. rewrite Nat.add_1_r. eapply Hk; exact H.
  - (* RCat *)
    apply matches_cat_inv in Hm. destruct Hm as (n1 & n2 & Hn & Ha & Hb). subst n.
    assert (Hk' : kins (fun p' pos' s' c' => m f b p' pos' s' c' k)).
    { intros p q t d1 d2 Hd. eapply m_No_caps; [exact Hk | exact Hd]. }
    pose proof (IH a prev pos s c _ Hk' H n1 Ha c1) as H1. cbv beta in H1.
    pose proof (IH b _ _ _ c1 k Hk H1 n2 Hb c1) as H2.
    rewrite prev_after_add, skipn_add, <- Nat.add_assoc in H2. exact H2.
  - (* RAlt *)
    destruct (m f a prev pos s c k) eqn:Ha; try discriminate.
    apply matches_alt_inv in Hm. destruct Hm as [Hm|Hm].
    + eapply IH; [exact Hk | exact Ha | exact Hm].
    + eapply IH; [exact Hk | exact H | exact Hm].
  - (* RRep *)
    assert (Hk' : kins (fun p' pos' s' c' =>
                          if Nat.eqb pos' pos then No
                          else m f (RRep r 0 (pred_opt mx) g) p' pos' s' c' k)).
    { intros p q t d1 d2 Hd. destruct (Nat.eqb q pos); [reflexivity|].
      eapply m_No_caps; [exact Hk | exact Hd]. }
    destruct mn as [|mn'].
    + apply matches_rep_0_inv in Hm.
      assert (Hbody :
                (if g
                 then match m f r prev pos s c
                              (fun p' pos' s' c' =>
                                 if Nat.eqb pos' pos then No
                                 else m f (RRep r 0 (pred_opt mx) g) p' pos' s' c' k) with
                      | No => k prev pos s c
                      | x => x
                      end
                 else match k prev pos s c with
                      | No => m f r prev pos s c
                                (fun p' pos' s' c' =>
                                   if Nat.eqb pos' pos then No
                                   else m f (RRep r 0 (pred_opt mx) g) p' pos' s' c' k)
                      | x => x
                      end) = No ->
                k prev pos s c = No /\
                m f r prev pos s c
                  (fun p' pos' s' c' =>
                     if Nat.eqb pos' pos then No
                     else m f (RRep r 0 (pred_opt mx) g) p' pos' s' c' k) = No).
      { intros Hb. destruct g.
        - destruct (m f r prev pos s c _) eqn:Hl in Hb |- *; try discriminate.
          split; [exact Hb | reflexivity].
        - destruct (k prev pos s c) eqn:Hk1; try discriminate.
          split; [reflexivity | exact Hb]. }
      assert (Hfin : k prev pos s c = No ->
                (mx <> Some 0 ->
                 m f r prev pos s c
                   (fun p' pos' s' c' =>
                      if Nat.eqb pos' pos then No
                      else m f (RRep r 0 (pred_opt mx) g) p' pos' s' c' k) = No) ->
                k (prev_after prev s n) (pos + n) (skipn n s) c1 = No).
      { intros Hk0 Hl.
        destruct Hm as [Hn | (Hmx & n1 & n2 & Hn & Hpos & Hr & Hrest)]; subst n.
        - apply Hzero; exact Hk0.
        - specialize (Hl Hmx).
          pose proof (IH r prev pos s c _ Hk' Hl n1 Hr c1) as H1. cbv beta in H1.
          destruct (Nat.eqb (pos + n1) pos) eqn:Hp.
          + apply Nat.eqb_eq in Hp. lia.
          + pose proof (IH _ _ _ _ c1 k Hk H1 n2 Hrest c1) as H2.
            rewrite prev_after_add, skipn_add, <- Nat.add_assoc in H2. exact H2. }
      destruct mx as [[|x]|].
      * apply Hfin; [exact H | intros Hc; contradiction Hc; reflexivity].
      * apply Hbody in H. destruct H as (H0 & Hl). apply Hfin; [exact H0 | intros _; exact Hl].
      * apply Hbody in H. destruct H as (H0 & Hl). apply Hfin; [exact H0 | intros _; exact Hl].
    + apply matches_rep_S_inv in Hm. destruct Hm as (n1 & n2 & Hn & Hr & Hrest). subst n.
      assert (Hk'' : kins (fun p' pos' s' c' => m f (RRep r mn' (pred_opt mx) g) p' pos' s' c' k)).
      { intros p q t d1 d2 Hd. eapply m_No_caps; [exact Hk | exact Hd]. }
      pose proof (IH r prev pos s c _ Hk'' H n1 Hr c1) as H1. cbv beta in H1.
      pose proof (IH _ _ _ _ c1 k Hk H1 n2 Hrest c1) as H2.
      rewrite prev_after_add, skipn_add, <- Nat.add_assoc in H2. exact H2.
  - (* RBol *)
    apply matches_bol_inv in Hm. destruct Hm as (Hn & [Hp|Hp]); subst n prev.
    + apply Hzero; exact H.
    + rewrite N.eqb_refl in H. apply Hzero; exact H.
  - (* REol *)
    apply matches_eol_inv in Hm. destruct Hm as (Hn & [Hs|Hs]); subst n.
    + subst s. apply Hzero; exact H.
    + destruct s as [|b t]; [discriminate|]. simpl in Hs. inversion Hs; subst b.
      rewrite N.eqb_refl in H. apply Hzero; exact H.
  - (* RBot *)
    apply matches_bot_inv in Hm. destruct Hm as (Hn & Hp). subst n prev. apply Hzero; exact H.
  - (* REot *)
    apply matches_eot_inv in Hm. destruct Hm as (Hn & Hs). subst n s. apply Hzero; exact H.
  - (* RWordB *)
    apply matches_wordb_inv in Hm. destruct Hm as (Hn & Hx). subst n.
    rewrite Hx in H. apply Hzero; exact H.
  - (* RNoWordB *)
    apply matches_nowordb_inv in Hm. destruct Hm as (Hn & Hx). subst n.
    rewrite Hx in H. apply Hzero; exact H.
  - (* RGrp *)
    apply matches_grp_inv in Hm.
    assert (Hk' : kins (fun p' pos' s' c' => k p' pos' s' ((i, pos, pos') :: c'))).
    { intros p q t d1 d2 Hd. eapply Hk; exact Hd. }
    pose proof (IH r prev pos s c _ Hk' H n Hm c1) as H1. cbv beta in H1.
    eapply Hk; exact H1.
Qed.

(* ------------------------------------------------------------------------------------------ *)
(* search / rx_search / rx_match                                                                *)
(* ------------------------------------------------------------------------------------------ *)

Lemma search_eq : forall r fuel prev pos s,
  search r fuel prev pos s =
  match m fuel r prev pos s [] (fun _ e _ c => Yes e c) with
  | Yes e c => SFound pos e c
  | Fuel => SFuel
  | No => match s with
          | [] => SNone
          | b :: t => search r fuel (Some b) (S pos) t
          end
  end.
Proof. intros r fuel prev pos s. destruct s; reflexivity. Qed.

(* a found match starts d bytes further on (d <= |s|), and is a real match there *)
Lemma search_sound : forall r fuel s prev pos st e c,
  search r fuel prev pos s = SFound st e c ->
  exists d n, st = pos + d /\ d <= length s /\ e = st + n /\
              matches r (prev_after prev s d) (skipn d s) n.
Proof.
  intros r fuel s; induction s as [|b t IH]; intros prev pos st e c H;
    rewrite search_eq in H;
    destruct (m fuel r prev pos _ [] _) as [ | |e0 c0] eqn:Hm in H; try discriminate.
  - inversion H; subst st e0 c0; clear H.
    apply m_sound in Hm. destruct Hm as (n & c1 & Hmt & Hy). inversion Hy; subst.
    exists 0, n. simpl. repeat split; try lia. exact Hmt.
  - apply IH in H. destruct H as (d & n & Hst & Hd & He & Hmt).
    exists (S d), n. rewrite prev_after_cons. simpl. repeat split; try lia. exact Hmt.
  - inversion H; subst st e0 c0; clear H.
    apply m_sound in Hm. destruct Hm as (n & c1 & Hmt & Hy). inversion Hy; subst.
    exists 0, n. simpl. repeat split; try lia. exact Hmt.
Qed.

(* no match found (and no fuel exhaustion): there is no match at any later start *)
Lemma search_complete : forall r fuel s prev pos,
  search r fuel prev pos s = SNone ->
  forall d n, d <= length s -> ~ matches r (prev_after prev s d) (skipn d s) n.
Proof.
  intros r fuel s; induction s as [|b t IH]; intros prev pos H d n Hd Hmt;
    rewrite search_eq in H;
    destruct (m fuel r prev pos _ [] _) as [ | |e0 c0] eqn:Hm in H; try discriminate.
  - simpl in Hd. assert (d = 0) by lia. subst d. simpl in Hmt.
    pose proof (m_complete _ _ _ _ _ _ _ kins_final Hm n Hmt []) as Hk. discriminate.
  - destruct d as [|d].
    + simpl in Hmt.
      pose proof (m_complete _ _ _ _ _ _ _ kins_final Hm n Hmt []) as Hk. discriminate.
    + rewrite prev_after_cons in Hmt. simpl in Hmt, Hd.
      apply (IH (Some b) (S pos) H d n); [lia | exact Hmt].
Qed.

(* position information of the leftmost match *)
Theorem rx_search_sound : forall r s st e c,
  rx_search r s = SFound st e c ->
  matches r (last_byte_before st s) (skipn st s) (e - st) /\ st <= e /\ e <= length s.
Proof.
  intros r s st e c H. unfold rx_search in H. revert H. generalize (fuel_for r s) as fuel.
  intros fuel H. apply search_sound in H.
  destruct H as (d & n & Hst & Hd & He & Hmt). simpl in Hst. subst d e.
  rewrite last_byte_before_prev_after.
  replace (st + n - st) with n by lia.
  pose proof (matches_length _ _ _ _ Hmt) as Hlen. rewrite skipn_length in Hlen.
  repeat split; [exact Hmt | lia | lia].
Qed.

Theorem rx_match_sound : forall r s,
  rx_match r s = true ->
  exists st n, st <= length s /\ matches r (last_byte_before st s) (skipn st s) n.
Proof.
  intros r s H. unfold rx_match in H.
  destruct (rx_search r s) as [ | |st e c] eqn:Hs; try discriminate.
  pose proof (rx_search_sound _ _ _ _ _ Hs) as (Hmt & Hle & Hlen).
  exists st, (e - st). split; [lia | exact Hmt].
Qed.

Theorem rx_no_match_complete : forall r s,
  rx_fuel_ok r s = true -> rx_match r s = false ->
  forall st n, st <= length s -> ~ matches r (last_byte_before st s) (skipn st s) n.
Proof.
  intros r s Hok Hno st n Hst. unfold rx_fuel_ok in Hok. unfold rx_match in Hno.
  destruct (rx_search r s) as [ | |st0 e0 c0] eqn:Hs; try discriminate.
  unfold rx_search in Hs. revert Hs. generalize (fuel_for r s) as fuel. intros fuel Hs.
  rewrite last_byte_before_prev_after.
  exact (search_complete _ _ _ _ _ Hs st n Hst).
Qed.

Theorem rx_match_iff : forall r s,
  rx_fuel_ok r s = true ->
  (rx_match r s = true <->
   exists st n, st <= length s /\ matches r (last_byte_before st s) (skipn st s) n).
Proof.
  intros r s Hok. split.
  - apply rx_match_sound.
  - intros (st & n & Hst & Hmt).
    destruct (rx_match r s) eqn:Hm; [reflexivity|].
    exfalso. exact (rx_no_match_complete r s Hok Hm st n Hst Hmt).
Qed.

(* ------------------------------------------------------------------------------------------ *)
(* sanity corollaries (by the theorems, not by computation)                                     *)
(* ------------------------------------------------------------------------------------------ *)

Lemma in_ranges_single : forall b, in_ranges b [(b, b)] = true.
Proof.
  intros b. unfold in_ranges. simpl. rewrite N.leb_refl. reflexivity.
Qed.

Lemma matches_re_lit : forall w prev t, matches (re_lit w) prev (w ++ t) (length w).
Proof.
  induction w as [|b w IH]; intros prev t.
  - simpl. constructor.
  - destruct w as [|b' w'].
    + simpl. constructor. apply in_ranges_single.
    + change (re_lit (b :: b' :: w')) with (RCat (RCls [(b, b)]) (re_lit (b' :: w'))).
      change (length (b :: b' :: w')) with (1 + length (b' :: w')).
      apply M_cat.
      * simpl. constructor. apply in_ranges_single.
      * change (skipn 1 ((b :: b' :: w') ++ t)) with ((b' :: w') ++ t). apply IH.
Qed.

(* the literal regex finds every occurrence: the engine agrees with "s contains w" *)
Corollary rx_match_re_lit : forall w s a b,
  rx_fuel_ok (re_lit w) s = true -> s = a ++ w ++ b -> rx_match (re_lit w) s = true.
Proof.
  intros w s a b Hok Hs. apply (rx_match_iff _ _ Hok).
  exists (length a), (length w). subst s. split.
  - rewrite app_length. lia.
  - rewrite skipn_app, skipn_all, Nat.sub_diag. simpl. apply matches_re_lit.
Qed.

(* conversely a reported match of a literal is an occurrence *)
Lemma matches_re_lit_inv : forall w prev s n,
  matches (re_lit w) prev s n -> n = length w /\ firstn n s = w.
Proof.
  induction w as [|b w IH]; intros prev s n H.
  - simpl in H. apply matches_eps_inv in H. subst n. split; reflexivity.
  - destruct w as [|b' w'].
    + simpl in H. apply matches_cls_inv in H. destruct H as (x & t & Hs & Hin & Hn). subst s n.
      unfold in_ranges in Hin. simpl in Hin. rewrite orb_false_r in Hin.
      apply andb_true_iff in Hin. destruct Hin as (H1 & H2).
      apply N.leb_le in H1, H2. assert (x = b) by lia. subst x. split; reflexivity.
    + change (re_lit (b :: b' :: w')) with (RCat (RCls [(b, b)]) (re_lit (b' :: w'))) in H.
      apply matches_cat_inv in H. destruct H as (n1 & n2 & Hn & Ha & Hb).
      apply matches_cls_inv in Ha. destruct Ha as (x & t & Hs & Hin & Hn1). subst s n n1.
      unfold in_ranges in Hin. simpl in Hin. rewrite orb_false_r in Hin.
      apply andb_true_iff in Hin. destruct Hin as (H1 & H2).
      apply N.leb_le in H1, H2. assert (x = b) by lia. subst x.
      simpl in Hb. apply IH in Hb. destruct Hb as (Hn2 & Hf).
      split; [rewrite Hn2; reflexivity|]. simpl. f_equal. exact Hf.
Qed.

Corollary rx_match_re_lit_occurs : forall w s,
  rx_match (re_lit w) s = true -> exists a b, s = a ++ w ++ b.
Proof.
  intros w s H. apply rx_match_sound in H. destruct H as (st & n & Hst & Hmt).
  apply matches_re_lit_inv in Hmt. destruct Hmt as (Hn & Hf).
  exists (firstn st s), (skipn n (skipn st s)).
  rewrite <- Hf, firstn_skipn, firstn_skipn. reflexivity.
Qed.

(* ------------------------------------------------------------------------------------------ *)
(* the n1 > 0 requirement loses nothing                                                         *)
(* ------------------------------------------------------------------------------------------ *)

(* the same relation WITHOUT the non-emptiness requirement on optional iterations *)
Inductive matches_lax : re -> option N -> bytes -> nat -> Prop :=
| L_eps : forall prev s, matches_lax REps prev s 0
| L_cls : forall rs prev b t, in_ranges b rs = true -> matches_lax (RCls rs) prev (b :: t) 1
| L_cat : forall a b prev s n1 n2,
    matches_lax a prev s n1 ->
    matches_lax b (prev_after prev s n1) (skipn n1 s) n2 ->
    matches_lax (RCat a b) prev s (n1 + n2)
| L_alt_l : forall a b prev s n, matches_lax a prev s n -> matches_lax (RAlt a b) prev s n
| L_alt_r : forall a b prev s n, matches_lax b prev s n -> matches_lax (RAlt a b) prev s n
| L_grp : forall i r prev s n, matches_lax r prev s n -> matches_lax (RGrp i r) prev s n
| L_bol : forall prev s, prev = None \/ prev = Some 10%N -> matches_lax RBol prev s 0
| L_eol : forall prev s, s = [] \/ head_opt s = Some 10%N -> matches_lax REol prev s 0
| L_bot : forall s, matches_lax RBot None s 0
| L_eot : forall prev, matches_lax REot prev [] 0
| L_wordb : forall prev s,
    xorb (is_word_opt prev) (is_word_opt (head_opt s)) = true -> matches_lax RWordB prev s 0
| L_nowordb : forall prev s,
    xorb (is_word_opt prev) (is_word_opt (head_opt s)) = false -> matches_lax RNoWordB prev s 0
| L_rep_S : forall r mn' mx g prev s n1 n2,
    matches_lax r prev s n1 ->
    matches_lax (RRep r mn' (pred_opt mx) g) (prev_after prev s n1) (skipn n1 s) n2 ->
    matches_lax (RRep r (S mn') mx g) prev s (n1 + n2)
| L_rep_0 : forall r mx g prev s, matches_lax (RRep r 0 mx g) prev s 0
| L_rep_more : forall r mx g prev s n1 n2,
    mx <> Some 0 ->
    matches_lax r prev s n1 ->
    matches_lax (RRep r 0 (pred_opt mx) g) (prev_after prev s n1) (skipn n1 s) n2 ->
    matches_lax (RRep r 0 mx g) prev s (n1 + n2).

Definition opt_le (a b : option nat) : Prop :=
  match a, b with
  | _, None => True
  | Some x, Some y => x <= y
  | None, Some _ => False
  end.

Lemma opt_le_pred : forall mx, opt_le (pred_opt mx) mx.
Proof. intros [x|]; simpl; [lia | exact I]. Qed.

(* raising the upper bound of the optional phase keeps every match *)
Lemma matches_rep_0_mono : forall R prev s n, matches R prev s n ->
  forall r mx g mx', R = RRep r 0 mx g -> opt_le mx mx' -> matches (RRep r 0 mx' g) prev s n.
Proof.
  intros R prev s n H.
  induction H as
    [ prev s | rs prev b t Hin | a b prev s n1 n2 Ha IHa Hb IHb | a b prev s n Ha IHa
    | a b prev s n Hb IHb | i r prev s n Hr IHr | prev s Hp | prev s Hs | s | prev
    | prev s Hx | prev s Hx | r mn' mx g prev s n1 n2 Hr IHr Hrest IHrest | r mx g prev s
    | r mx g prev s n1 n2 Hmx Hpos Hr IHr Hrest IHrest ];
    intros r0 mx0 g0 mx' HR Hle; try discriminate.
  - inversion HR; subst. apply M_rep_0.
  - inversion HR; subst. apply M_rep_more; [ | exact Hpos | exact Hr | ].
    + intros Hc. subst mx'. destruct mx0 as [[|x]|]; simpl in Hle; try lia. apply Hmx; reflexivity.
    + eapply IHrest; [reflexivity|].
      destruct mx0 as [x|], mx' as [y|]; simpl in *; try lia; exact I.
Qed.

(* one empty optional iteration adds nothing *)
Lemma rep_empty_iterations_redundant : forall r mx g prev s n2,
  matches r prev s 0 ->
  matches (RRep r 0 (pred_opt mx) g) prev s n2 ->
  matches (RRep r 0 mx g) prev s n2.
Proof.
  intros r mx g prev s n2 _ H.
  eapply matches_rep_0_mono; [exact H | reflexivity | apply opt_le_pred].
Qed.

(* hence the relation with and without the restriction define the same matches *)
Theorem matches_lax_iff : forall r prev s n, matches_lax r prev s n <-> matches r prev s n.
Proof.
  intros r prev s n. split; intros H.
  - induction H as
      [ prev s | rs prev b t Hin | a b prev s n1 n2 Ha IHa Hb IHb | a b prev s n Ha IHa
      | a b prev s n Hb IHb | i r prev s n Hr IHr | prev s Hp | prev s Hs | s | prev
      | prev s Hx | prev s Hx | r mn' mx g prev s n1 n2 Hr IHr Hrest IHrest | r mx g prev s
      | r mx g prev s n1 n2 Hmx Hr IHr Hrest IHrest ].
    + constructor.
    + constructor; assumption.
    + econstructor; eassumption.
    + apply M_alt_l; assumption.
    + apply M_alt_r; assumption.
    + constructor; assumption.
    + constructor; assumption.
    + constructor; assumption.
    + constructor.
    + constructor.
    + constructor; assumption.
    + constructor; assumption.
    + apply M_rep_S; assumption.
    + apply M_rep_0.
    + destruct n1 as [|n1'].
      * simpl in *. eapply rep_empty_iterations_redundant; eassumption.
      * apply M_rep_more; [exact Hmx | lia | exact IHr | exact IHrest].
  - induction H as
      [ prev s | rs prev b t Hin | a b prev s n1 n2 Ha IHa Hb IHb | a b prev s n Ha IHa
      | a b prev s n Hb IHb | i r prev s n Hr IHr | prev s Hp | prev s Hs | s | prev
      | prev s Hx | prev s Hx | r mn' mx g prev s n1 n2 Hr IHr Hrest IHrest | r mx g prev s
      | r mx g prev s n1 n2 Hmx Hpos Hr IHr Hrest IHrest ].
    + constructor.
    + constructor; assumption.
    + econstructor; eassumption.
    + apply L_alt_l; assumption.
    + apply L_alt_r; assumption.
    + constructor; assumption.
    + constructor; assumption.
    + constructor; assumption.
    + constructor.
    + constructor.
    + constructor; assumption.
    + constructor; assumption.
    + apply L_rep_S; assumption.
    + apply L_rep_0.
    + apply L_rep_more; assumption.
Qed.

Print Assumptions m_sound.
Print Assumptions rx_match_sound.
Print Assumptions rx_search_sound.
Print Assumptions m_complete.
Print Assumptions rx_no_match_complete.
Print Assumptions rx_match_iff.
Print Assumptions rx_match_re_lit.
Print Assumptions rx_match_re_lit_occurs.
Print Assumptions matches_lax_iff.
