(* AcquireSrc.v — network Driver.AcquirePriv as the source has it on this run (C04, C05): the check
   of the target, and ONE iteration of its loop for every combination of what can happen in it,
   against the model's Network.acquire_priv / acquire_loop. *)
From Scrapli Require Import Bytes Regex PlatformTypes Generated Channel Network DecideLang GeneratedSkel.
From Coq Require Import String List Bool Arith.
Import ListNotations.
Open Scope nat_scope.
Open Scope string_scope.

(* known: the target is a key of the level map; prompt_ok / pa_ok / step_ok: GetPrompt,
   processAcquirePriv, the escalate or de-escalate step succeed; act: the action decided;
   exceeded: count > 2 * number of levels after the step *)
Definition aq_env (known prompt_ok pa_ok : bool) (act : string) (step_ok exceeded : bool) : denv :=
  mkEnvX (fun _ => false) (fun _ _ => false)
         (fun f => if String.eqb f "action" then act else "")
         (fun a => if String.eqb a "count > len(d.PrivilegeLevels)*2" then Some exceeded else None)
         (fun st a b =>
            if String.eqb a "err" && String.eqb b "nil" then
              match st with
              | ("!call", "d.Driver.GetPrompt()") :: _ => Some (Some prompt_ok)
              | ("!call", "d.processAcquirePriv( target, currentPrompt, )") :: _ => Some (Some pa_ok)
              | ("err", "d.escalate(next)") :: _ | ("err", "d.deescalate(next)") :: _ => Some (Some step_ok)
              | _ => Some None
              end
            else None)
         (fun x => if String.eqb x "forever" then 1 else O)
         (fun st a => if String.eqb a "ok" then
                        match sget st "ok" with
                        | Some "ok of d.PrivilegeLevels[target]" => Some (Some known)
                        | _ => Some None
                        end
                      else None).

Inductive aq_out :=
| QBadTarget                       (* privilege error before anything is sent *)
| QPromptErr | QPaErr              (* the error of GetPrompt / processAcquirePriv, as it is *)
| QDone                            (* nil: already there *)
| QStepErr (esc : bool)            (* the error of the escalate / de-escalate step, as it is *)
| QExceeded (esc : bool)           (* privilege error: more than 2 * levels steps *)
| QAgain (esc : bool)              (* the step was made and counted; the loop goes round *)
| QBad.

Definition aq_run (known prompt_ok pa_ok : bool) (act : string) (step_ok exceeded : bool) : aq_out :=
  let calls_ok (st : store) (step : option bool) (counted : bool) :=
    match calls_of st, step with
    | ["d.Driver.GetPrompt()"; "d.processAcquirePriv( target, currentPrompt, )"], None => negb counted
    | ["d.Driver.GetPrompt()"; "d.processAcquirePriv( target, currentPrompt, )"; "count++"], Some _ => counted
    | _, _ => false
    end in
  let step_of (st : store) : option bool :=
    match sget st "err" with Some "d.escalate(next)" => Some true | Some "d.deescalate(next)" => Some false | _ => None end in
  match DecideLang.exec 30 (aq_env known prompt_ok pa_ok act step_ok exceeded) acquire_priv_code [] with
  | Returned st v =>
      if String.eqb v "error" then
        match calls_of st, step_of st with
        | [], None => QBadTarget
        | _, Some e => if calls_ok st (Some e) true then QExceeded e else QBad
        | _, _ => QBad
        end
      else if String.eqb v "err" then
        match calls_of st, step_of st with
        | ["d.Driver.GetPrompt()"], None => QPromptErr
        | ["d.Driver.GetPrompt()"; "d.processAcquirePriv( target, currentPrompt, )"], None => QPaErr
        | ["d.Driver.GetPrompt()"; "d.processAcquirePriv( target, currentPrompt, )"], Some e => QStepErr e
        | _, _ => QBad
        end
      else if String.eqb v "nil" then (if calls_ok st None false then QDone else QBad)
      else QBad
  | Running st => match step_of st with Some e => if calls_ok st (Some e) true then QAgain e else QBad | None => QBad end
  | _ => QBad
  end.

Definition aq_expected (known prompt_ok pa_ok : bool) (act : nat) (step_ok exceeded : bool) : aq_out :=
  if negb known then QBadTarget
  else if negb prompt_ok then QPromptErr
  else if negb pa_ok then QPaErr
  else match act with
       | 0 => QDone
       | S a => let esc := Nat.eqb a 0 in
                if negb step_ok then QStepErr esc else if exceeded then QExceeded esc else QAgain esc
       end.

Definition aq_out_eqb (a b : aq_out) : bool :=
  match a, b with
  | QBadTarget, QBadTarget | QPromptErr, QPromptErr | QPaErr, QPaErr | QDone, QDone => true
  | QStepErr x, QStepErr y | QExceeded x, QExceeded y | QAgain x, QAgain y => Bool.eqb x y
  | _, _ => false
  end.

Definition act_name (a : nat) : string := match a with 0 => "noAction" | 1 => "escalateAction" | _ => "deescalateAction" end.

Definition aq_table_ok : bool :=
  forallb (fun k => forallb (fun p => forallb (fun q => forallb (fun a => forallb (fun s => forallb (fun x =>
    aq_out_eqb (aq_run k p q (act_name a) s x) (aq_expected k p q a s x))
    [true; false]) [true; false]) [0; 1; 2]) [true; false]) [true; false]) [true; false].

Definition acquire_priv_known : list string :=
  ["ok"; "err == nil"; "switch action"; "count > len(d.PrivilegeLevels)*2"].

(* THE TIE (source side): 96 runs *)
Theorem acquire_priv_is_source : aq_table_ok = true /\ tests_known acquire_priv_code acquire_priv_known = true.
Proof. split; vm_compute; reflexivity. Qed.

(* the model in the same terms: an unknown target is a privilege error before anything is sent; one
   round of the loop reads the prompt, decides, makes the step, counts it, and gives up with a
   privilege error when more than 2 * levels steps were made *)
Lemma acquire_priv_target : forall net cached target,
  lookup_level (n_levels net) target = None -> acquire_priv net cached target = Fail EPrivilege.
Proof. intros net cached target H. unfold acquire_priv. now rewrite H. Qed.

Lemma acquire_loop_step : forall f net cached target count,
  acquire_loop (S f) net cached target count
  = bind (get_prompt (n_chan net)) (fun prompt =>
      match process_acquire net cached target prompt with
      | PAErr => Fail EPrivilege
      | PAPanic => Fail EOperation
      | PAOk ANone cur => Note TAG_CUR cur (Ret cur)
      | PAOk a cur =>
          Note TAG_CUR cur
            (bind (match a with
                   | AEscalate next => escalate net next
                   | ADeescalate c => deescalate net c
                   | ANone => Ret []%list
                   end)
                  (fun _ => if Nat.ltb (2 * List.length (n_levels net)) (S count) then Fail EPrivilege
                            else acquire_loop f net cur target (S count)))
      end).
Proof. reflexivity. Qed.
