(* AcquireSrc.v — network Driver.AcquirePriv as the source has it on this run (C04, C05): the check
   of the target, and ONE iteration of its loop for every combination of what can happen in it,
   against the model's Network.acquire_priv / acquire_loop. *)
From Scrapli Require Import Bytes Regex PlatformTypes Generated Channel Network DecideLang GeneratedSkel.
From Coq Require Import String List Bool Arith.
Import ListNotations.
Open Scope nat_scope.
Open Scope string_scope.

(* known: the target is a key of the level map; prompt_ok / pa_ok / step_ok: GetPrompt,
   processAcquirePriv, the escalate or de-escalate step succeed; act: the action decided;
   exceeded: count > 2 * number of levels after the step *)
Definition aq_env (known prompt_ok pa_ok : bool) (act : string) (step_ok exceeded : bool) : denv :=
  mkEnvX (fun _ => false) (fun _ _ => false)
         (fun f => if String.eqb f "action" then act else "")
         (fun a => if String.eqb a "count > len(d.PrivilegeLevels)*2" then Some exceeded else None)
         (fun st a b =>
            if String.eqb a "err" && String.eqb b "nil" then
              match st with
              | ("!call", "d.Driver.GetPrompt()") :: _ => Some (Some prompt_ok)
              | ("!call", "d.processAcquirePriv( target, currentPrompt, )") :: _ => Some (Some pa_ok)
              | ("err", "d.escalate(next)") :: _ | ("err", "d.deescalate(next)") :: _ => Some (Some step_ok)
              | _ => Some None
              end
            else None)
         (fun x => if String.eqb x "forever" then 1 else O)
         (fun st a => if String.eqb a "ok" then
                        match sget st "ok" with
                        | Some "ok of d.PrivilegeLevels[target]" => Some (Some known)
                        | _ => Some None
                        end
                      else None).

Inductive aq_out :=
| QBadTarget                       (* privilege error before anything is sent *)
| QPromptErr | QPaErr              (* the error of GetPrompt / processAcquirePriv, as it is *)
| QDone                            (* nil: already there *)
| QStepErr (esc : bool)            (* the error of the escalate / de-escalate step, as it is *)
| QExceeded (esc : bool)           (* privilege error: more than 2 * levels steps *)
| QAgain (esc : bool)              (* the step was made and counted; the loop goes round *)
| QBad.

Definition aq_run (known prompt_ok pa_ok : bool) (act : string) (step_ok exceeded : bool) : aq_out :=
  let calls_ok (st : store) (step : option bool) (counted : bool) :=
    match calls_of st, step with
    | ["d.Driver.GetPrompt()"; "d.processAcquirePriv( target, currentPrompt, )"], None => negb counted
    | ["d.Driver.GetPrompt()"; "d.processAcquirePriv( target, currentPrompt, )"; "count++"], Some _ => counted
    | _, _ => false
    end in
  let step_of (st : store) : option bool :=
    match sget st "err" with Some "d.escalate(next)" => Some true | Some "d.deescalate(next)" => Some false | _ => None end in
  match DecideLang.exec 30 (aq_env known prompt_ok pa_ok act step_ok exceeded) acquire_priv_code [] with
  | Returned st v =>
      if String.eqb v "error" then
        match calls_of st, step_of st with
        | [], None => QBadTarget
        | _, Some e => if calls_ok st (Some e) true then QExceeded e else QBad
        | _, _ => QBad
        end
      else if String.eqb v "err" then
        match calls_of st, step_of st with
        | ["d.Driver.GetPrompt()"], None => QPromptErr
        | ["d.Driver.GetPrompt()"; "d.processAcquirePriv( target, currentPrompt, )"], None => QPaErr
        | ["d.Driver.GetPrompt()"; "d.processAcquirePriv( target, currentPrompt, )"], Some e => QStepErr e
        | _, _ => QBad
        end
      else if String.eqb v "nil" then (if calls_ok st None false then QDone else QBad)
      else QBad
  | Running st => match step_of st with Some e => if calls_ok st (Some e) true then QAgain e else QBad | None => QBad end
  | _ => QBad
  end.

Definition aq_expected (known prompt_ok pa_ok : bool) (act : nat) (step_ok exceeded : bool) : aq_out :=
  if negb known then QBadTarget
  else if negb prompt_ok then QPromptErr
  else if negb pa_ok then QPaErr
  else match act with
       | 0 => QDone
       | S a => let esc := Nat.eqb a 0 in
                if negb step_ok then QStepErr esc else if exceeded then QExceeded esc else QAgain esc
       end.

Definition aq_out_eqb (a b : aq_out) : bool :=
  match a, b with
  | QBadTarget, QBadTarget | QPromptErr, QPromptErr | QPaErr, QPaErr | QDone, QDone => true
  | QStepErr x, QStepErr y | QExceeded x, QExceeded y | QAgain x, QAgain y => Bool.eqb x y
  | _, _ => false
  end.

Definition act_name (a : nat) : string := match a with 0 => "noAction" | 1 => "escalateAction" | _ => "deescalateAction" end.

Definition aq_table_ok : bool :=
  forallb (fun k => forallb (fun p => forallb (fun q => forallb (fun a => forallb (fun s => forallb (fun x =>
    aq_out_eqb (aq_run k p q (act_name a) s x) (aq_expected k p q a s x))
    [true; false]) [true; false]) [0; 1; 2]) [true; false]) [true; false]) [true; false].

Definition acquire_priv_known : list string :=
  ["ok"; "err == nil"; "switch action"; "count > len(d.PrivilegeLevels)*2"].

(* THE TIE (source side): 96 runs *)
Theorem acquire_priv_is_source : aq_table_ok = true /\ tests_known acquire_priv_code acquire_priv_known = true.
Proof. split; vm_compute; reflexivity. Qed.

(* the model in the same terms: an unknown target is a privilege error before anything is sent; one
   round of the loop reads the prompt, decides, makes the step, counts it, and gives up with a
   privilege error when more than 2 * levels steps were made *)
Lemma acquire_priv_target : forall net cached target,
  lookup_level (n_levels net) target = None -> acquire_priv net cached target = Fail EPrivilege.
Proof. intros net cached target H. unfold acquire_priv. now rewrite H. Qed.

Lemma acquire_loop_step : forall f net cached target count,
  acquire_loop (S f) net cached target count
  = bind (get_prompt (n_chan net)) (fun prompt =>
      match process_acquire net cached target prompt with
      | PAErr => Fail EPrivilege
      | PAPanic => Fail EOperation
      | PAOk ANone cur => Note TAG_CUR cur (Ret cur)
      | PAOk a cur =>
          Note TAG_CUR cur
            (bind (match a with
                   | AEscalate next => escalate net next
                   | ADeescalate c => deescalate net c
                   | ANone => Ret []%list
                   end)
                  (fun _ => if Nat.ltb (2 * List.length (n_levels net)) (S count) then Fail EPrivilege
                            else acquire_loop f net cur target (S count)))
      end).
Proof. reflexivity. Qed.

(* ---------- escalate / deescalate ---------- *)

Inductive esc_out :=
| EPlain                      (* Channel.SendInput(p.Escalate) *)
| EAuth                       (* SendInteractive: escalate command -> escalate prompt (visible), secondary secret ->
                                 the level's pattern (hidden), completion patterns: the previous level's and the level's *)
| EBadOut.

Definition esc_env (auth secondary_empty : bool) : denv :=
  mkEnvX (fun _ => false)
         (fun a b => String.eqb a "d.AuthSecondary" && String.eqb b """""" && secondary_empty)
         (fun _ => "")
         (fun a => if String.eqb a "p.EscalateAuth" then Some auth else None)
         (fun _ _ _ => None) (fun _ => O) (fun _ _ => None).

Definition esc_run (auth secondary_empty : bool) : esc_out :=
  match DecideLang.exec 20 (esc_env auth secondary_empty) escalate_code [] with
  | Returned st "err" =>
      match sget st "p", calls_of st, sget st "events" with
      | Some "d.PrivilegeLevels[target]", ["d.Driver.Channel.SendInput(p.Escalate)"], None => EPlain
      | Some "d.PrivilegeLevels[target]",
        ["d.Driver.Channel.SendInteractive( events, func(o interface{}) error { a, ok := o.(*channel.OperationOptions) if ok { a.CompletePatterns = []*regexp.Regexp{ d.PrivilegeLevels[p.PreviousPriv].patternRe, p.patternRe, } return nil } return util.ErrIgnoredOption }, )"],
        Some "[]*channel.SendInteractiveEvent{ { ChannelInput: p.Escalate, ChannelResponse: p.EscalatePrompt, HideInput: false, }, { ChannelInput: d.AuthSecondary, ChannelResponse: p.Pattern, HideInput: true, }, }" => EAuth
      | _, _, _ => EBadOut
      end
  | _ => EBadOut
  end.

Definition deesc_ok : bool :=
  match DecideLang.exec 20 (esc_env false false) deescalate_code [] with
  | Returned st "err" =>
      match sget st "p", calls_of st with
      | Some "d.PrivilegeLevels[target]", ["d.Driver.Channel.SendInput(p.Deescalate)"] => true
      | _, _ => false
      end
  | _ => false
  end.

Definition esc_table_ok : bool :=
  forallb (fun a => forallb (fun e =>
    match esc_run a e, (if negb a || e then EPlain else EAuth) with
    | EPlain, EPlain | EAuth, EAuth => true
    | _, _ => false
    end) [true; false]) [true; false]
  && deesc_ok
  && tests_known escalate_code ["p.EscalateAuth"; "d.AuthSecondary == """""]
  && tests_known deescalate_code [].

(* THE TIE: plain send of the escalate command unless the level wants authentication AND a
   secondary secret is set; then the two-event dialogue with exactly the model's events and
   completion patterns; de-escalation is a plain send of the de-escalate command *)
Theorem escalate_is_source : esc_table_ok = true.
Proof. vm_compute. reflexivity. Qed.

Lemma escalate_cases : forall net target p,
  lookup_level (n_levels net) target = Some p ->
  escalate net target
  = (if negb (lv_escalate_auth p) || (match n_secondary net with []%list => true | _ => false end)
    then send_input (n_chan net) (lv_escalate p) default_opts
    else send_interactive (n_chan net)
           [ mkEv (lv_escalate p) (Some (lv_escalate_prompt p)) false;
             mkEv (n_secondary net) (Some (lv_pattern p)) true ]
           (mkOpts default_strip_prompt default_eager default_exact []
                   ((match lookup_level (n_levels net) (lv_previous p) with Some pl => [lv_pattern pl] | None => [] end) ++ [lv_pattern p])%list))
  /\ deescalate net target = send_input (n_chan net) (lv_deescalate p) default_opts.
Proof. intros net target p H. unfold escalate, deescalate. rewrite H. split; reflexivity. Qed.
