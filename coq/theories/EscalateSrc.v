(* EscalateSrc.v — network Driver.escalate / deescalate as the source has them on this run (C04, C11):
   a plain send of the escalate command unless the level wants authentication AND a secondary
   secret is set; then an interactive send whose second event — the secret — is HIDDEN (written
   redacted, never part of a logged message), through the CHANNEL (whose result carries no record of
   the inputs). *)
From Scrapli Require Import Bytes Regex PlatformTypes Generated Channel Network DecideLang GeneratedSkel.
From Coq Require Import String List Bool Arith.
Import ListNotations.
Open Scope nat_scope.
Open Scope string_scope.

(* ---------- escalate / deescalate ---------- *)

Inductive esc_out :=
| EPlain                      (* Channel.SendInput(p.Escalate) *)
| EAuth                       (* SendInteractive: escalate command -> escalate prompt (visible), secondary secret ->
                                 the level's pattern (hidden), completion patterns: the previous level's and the level's *)
| EBadOut.

Definition esc_env (auth secondary_empty : bool) : denv :=
  mkEnvX (fun _ => false)
         (fun a b => String.eqb a "d.AuthSecondary" && String.eqb b """""" && secondary_empty)
         (fun _ => "")
         (fun a => if String.eqb a "p.EscalateAuth" then Some auth else None)
         (fun _ _ _ => None) (fun _ => O) (fun _ _ => None).

Definition esc_run (auth secondary_empty : bool) : esc_out :=
  match DecideLang.exec 20 (esc_env auth secondary_empty) escalate_code [] with
  | Returned st "err" =>
      match sget st "p", calls_of st, sget st "events" with
      | Some "d.PrivilegeLevels[target]", ["d.Driver.Channel.SendInput(p.Escalate)"], None => EPlain
      | Some "d.PrivilegeLevels[target]",
        ["d.Driver.Channel.SendInteractive( events, func(o interface{}) error { a, ok := o.(*channel.OperationOptions) if ok { a.CompletePatterns = []*regexp.Regexp{ d.PrivilegeLevels[p.PreviousPriv].patternRe, p.patternRe, } return nil } return util.ErrIgnoredOption }, )"],
        Some "[]*channel.SendInteractiveEvent{ { ChannelInput: p.Escalate, ChannelResponse: p.EscalatePrompt, HideInput: false, }, { ChannelInput: d.AuthSecondary, ChannelResponse: p.Pattern, HideInput: true, }, }" => EAuth
      | _, _, _ => EBadOut
      end
  | _ => EBadOut
  end.

Definition deesc_ok : bool :=
  match DecideLang.exec 20 (esc_env false false) deescalate_code [] with
  | Returned st "err" =>
      match sget st "p", calls_of st with
      | Some "d.PrivilegeLevels[target]", ["d.Driver.Channel.SendInput(p.Deescalate)"] => true
      | _, _ => false
      end
  | _ => false
  end.

Definition esc_table_ok : bool :=
  forallb (fun a => forallb (fun e =>
    match esc_run a e, (if negb a || e then EPlain else EAuth) with
    | EPlain, EPlain | EAuth, EAuth => true
    | _, _ => false
    end) [true; false]) [true; false]
  && deesc_ok
  && tests_known escalate_code ["p.EscalateAuth"; "d.AuthSecondary == """""]
  && tests_known deescalate_code [].

(* THE TIE: plain send of the escalate command unless the level wants authentication AND a
   secondary secret is set; then the two-event dialogue with exactly the model's events and
   completion patterns; de-escalation is a plain send of the de-escalate command *)
Theorem escalate_is_source : esc_table_ok = true.
Proof. vm_compute. reflexivity. Qed.

Lemma escalate_cases : forall net target p,
  lookup_level (n_levels net) target = Some p ->
  escalate net target
  = (if negb (lv_escalate_auth p) || (match n_secondary net with []%list => true | _ => false end)
    then send_input (n_chan net) (lv_escalate p) default_opts
    else send_interactive (n_chan net)
           [ mkEv (lv_escalate p) (Some (lv_escalate_prompt p)) false;
             mkEv (n_secondary net) (Some (lv_pattern p)) true ]
           (mkOpts default_strip_prompt default_eager default_exact []
                   ((match lookup_level (n_levels net) (lv_previous p) with Some pl => [lv_pattern pl] | None => [] end) ++ [lv_pattern p])%list))
  /\ deescalate net target = send_input (n_chan net) (lv_deescalate p) default_opts.
Proof. intros net target p H. unfold escalate, deescalate. rewrite H. split; reflexivity. Qed.
