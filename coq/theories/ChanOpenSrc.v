(* ChanOpenSrc.v — channel/channel.go Channel.Open as the source has it on this run (C20, C10): the
   transport is opened, the read loop started, the in-channel authentication the transport asks for
   is run, and what it consumed is PUT BACK AT THE FRONT of the queue (Requeue, not Enqueue) when
   there is any — so what the device said after the prompt stays behind it. *)
From Scrapli Require Import DecideLang GeneratedSkel.
From Coq Require Import String List Bool.
Import ListNotations.
Open Scope string_scope.

(* open_err: the transport's Open fails; bypass; kind: 0 ssh, 1 telnet, 2 none; auth_err; some: the
   authentication returned bytes *)
Definition co_env (open_err bypass : bool) (kind : nat) (auth_err some : bool) : denv :=
  mkEnvX (fun _ => false) (fun _ _ => false)
         (fun x => if String.eqb x "authData.Type"
                   then match kind with 0 => "transport.InChannelAuthSSH" | 1 => "transport.InChannelAuthTelnet" | _ => "transport.InChannelAuthUnsupported" end
                   else "")
         (fun a => if String.eqb a "c.AuthBypass" then Some bypass
                   else if String.eqb a "len(b) > 0" then Some some else None)
         (fun s a b => if String.eqb a "err" && String.eqb b "nil"
                       then Some (Some (match calls_of s with
                                        | [] => negb open_err          (* after c.t.Open() *)
                                        | _ => match sget s "authData" with
                                               | Some _ => negb auth_err (* after the authentication *)
                                               | None => negb open_err
                                               end
                                        end))
                       else None)
         (fun _ => O) (fun _ _ => None).

Fixpoint strs_eqb (a b : list string) : bool :=
  match a, b with
  | [], [] => true
  | x :: a', y :: b' => String.eqb x y && strs_eqb a' b'
  | _, _ => false
  end.

Definition c_defer := "defer func() { if reterr != nil { _ = c.Close() } }()".
Definition c_ssh := "c.AuthenticateSSH( []byte(authData.Password), []byte(authData.PrivateKeyPassPhrase), )".
Definition c_telnet := "c.AuthenticateTelnet([]byte(authData.User), []byte(authData.Password))".

Definition co_spec (open_err bypass : bool) (kind : nat) (auth_err some : bool) : string * list string :=
  if open_err then ("err", [])
  else if bypass then ("nil", [c_defer; "go c.read()"])
  else
    let auth := match kind with 0 => [c_ssh] | 1 => [c_telnet] | _ => [] end in
    if (match kind with 0 | 1 => auth_err | _ => false end) then ("err", app [c_defer; "go c.read()"] auth)
    else ("nil", app [c_defer; "go c.read()"] (app auth (if some then ["c.Q.Requeue(b)"] else []))).

Definition co_run_ok (open_err bypass : bool) (kind : nat) (auth_err some : bool) : bool :=
  let '(v, calls) := co_spec open_err bypass kind auth_err some in
  match DecideLang.exec 30 (co_env open_err bypass kind auth_err some) channel_open_code [] with
  | Returned st r => String.eqb r v && strs_eqb (calls_of st) calls
  | _ => false
  end.

Definition bools := [false; true].
Definition chan_open_src_ok : bool :=
  forallb (fun oe => forallb (fun bp => forallb (fun k => forallb (fun ae => forallb (fun sm =>
    co_run_ok oe bp k ae sm) bools) bools) [0; 1; 2]) bools) bools
  && tests_known channel_open_code ["err == nil"; "c.AuthBypass"; "switch authData.Type"; "len(b) > 0"].

Theorem chan_open_is_source : chan_open_src_ok = true.
Proof. vm_compute. reflexivity. Qed.
Print Assumptions chan_open_is_source.
