(* DecideLang.v — the tiny imperative language into which gen/decide.go translates small Go decision
   functions statement by statement, and its interpreter.  Anything the translator did not
   understand is [DOther] / [DUnknown]: the interpreter then yields [Stuck], so no theorem about the
   translated code can hold by ignoring a statement. *)
From Coq Require Import Ascii String List Bool.
Import ListNotations.
Open Scope string_scope.

Inductive dexpr :=
| DHas (cap : string)                 (* d.ServerHasCapability(cap) *)
| DEq (a b : string)                  (* a == b *)
| DAtom (src : string)                (* a boolean call or field, by its source text *)
| DNot (e : dexpr) | DAnd (a b : dexpr) | DOr (a b : dexpr)
| DUnknown (src : string).

Inductive dstmt :=
| DAssign (lhs rhs : string)
| DIf (c : dexpr) (t e : list dstmt)
| DSwitch (subject : string) (cases : list (list string * list dstmt))
| DReturn (v : string)
| DCall (src : string)                (* a call made for its effect: recorded, in order *)
| DRange (v lst : string) (body : list dstmt)   (* for _, v := range lst { body } *)
| DContinue                           (* continue (of the innermost range loop) *)
| DBreak                              (* break (out of the innermost range loop) *)
| DOther (kind : string).

(* the inputs of a run: which capabilities the server has, which equalities between an input and
   a literal hold, the values of the fields that are read before being assigned *)
Definition store := list (string * string).
Fixpoint sget (s : store) (k : string) : option string :=
  match s with [] => None | (k', v) :: t => if String.eqb k k' then Some v else sget t k end.

(* [e_eqs] answers equalities that depend on what the run has assigned so far (e.g. `current ==
   target` after `current = ...`): Some (Some b) = decided, Some None = evaluating it would panic
   in Go (the run is stuck), None = not store-dependent, ask [e_eq] *)
(* [e_len] is the length of a slice that is ranged over; inside the loop the loop variable is bound
   in the store to its INDEX, written in unary ([unary i]); [e_atoms] answers boolean calls that
   depend on the store (on the loop variable): same convention as [e_eqs] *)
Record denv := mkEnvX { e_has : string -> bool; e_eq : string -> string -> bool; e_field : string -> string;
                        e_atom : string -> option bool;
                        e_eqs : store -> string -> string -> option (option bool);
                        e_len : string -> nat;
                        e_atoms : store -> string -> option (option bool) }.
Definition mkEnv a b c d e : denv := mkEnvX a b c d e (fun _ => O) (fun _ _ => None).

Fixpoint unary (i : nat) : string := match i with O => "" | S j => String "I"%char (unary j) end.

(* [Cont]: a `continue` was executed; it ends the current iteration of the enclosing range loop *)
Inductive dres := Running (s : store) | Returned (s : store) (v : string) | Stuck | Cont (s : store) | Brk (s : store).

Fixpoint eval (env : denv) (s : store) (e : dexpr) : option bool :=
  match e with
  | DHas c => Some (e_has env c)
  | DEq a b => match e_eqs env s a b with Some r => r | None => Some (e_eq env a b) end
  | DAtom a => match e_atoms env s a with Some r => r | None => e_atom env a end
  | DNot x => option_map negb (eval env s x)
  | DAnd a b => match eval env s a, eval env s b with Some x, Some y => Some (x && y) | _, _ => None end
  | DOr a b => match eval env s a, eval env s b with Some x, Some y => Some (x || y) | _, _ => None end
  | DUnknown _ => None
  end.

(* a clause without labels is `default:` — chosen, wherever it stands, when no label matches *)
Fixpoint pick_case_d (v : string) (cases : list (list string * list dstmt)) (dflt : list dstmt) : list dstmt :=
  match cases with
  | [] => dflt
  | ([], body) :: t => pick_case_d v t body
  | (labels, body) :: t => if existsb (String.eqb v) labels then body else pick_case_d v t dflt
  end.
Definition pick_case (v : string) (cases : list (list string * list dstmt)) : list dstmt := pick_case_d v cases [].

(* the iterations of a range loop: [body] runs the loop body from a store; a return (or getting
   stuck) inside the body ends the loop *)
Fixpoint range_loop (body : store -> dres) (v : string) (k i : nat) (s : store) : dres :=
  match k with
  | O => Running s
  | S k' => match body ((v, unary i) :: s) with
            | Running s1 | Cont s1 => range_loop body v k' (S i) s1
            | Brk s1 => Running s1            (* a `break` ends the loop; what follows the loop runs *)
            | x => x
            end
  end.

Fixpoint exec (fuel : nat) (env : denv) (l : list dstmt) (s : store) : dres :=
  match fuel with
  | O => Stuck
  | S f =>
      match l with
      | [] => Running s
      | st :: rest =>
          let continue r := match r with Running s' => exec f env rest s' | x => x end in
          match st with
          | DAssign k v => exec f env rest ((k, v) :: s)
          | DIf c t e =>
              match eval env s c with
              | Some true => continue (exec f env t s)
              | Some false => continue (exec f env e s)
              | None => Stuck
              end
          | DSwitch subj cases =>
              let v := match sget s subj with Some x => x | None => e_field env subj end in
              continue (exec f env (pick_case v cases) s)
          | DReturn v => Returned s v
          | DCall c => exec f env rest (("!call", c) :: s)
          | DRange v lst body => continue (range_loop (exec f env body) v (e_len env lst) 0 s)
          | DContinue => Cont s
          | DBreak => Brk s
          | DOther _ => Stuck
          end
      end
  end.

(* the calls recorded by a run, in the order they were made *)
Definition calls_of (s : store) : list string :=
  rev (flat_map (fun kv => if String.eqb (fst kv) "!call" then [snd kv] else []) s).

(* ---------- the tests a piece of translated code makes ----------
   An environment answers `false` to an equality it does not know (e_eq is a total function), so a
   tie proved by evaluating the code under an environment must also say that every test occurring
   in the code is one the environment was written for: [tests_known code known].  A test that is
   new in the source then breaks the tie instead of silently evaluating to false. *)
Fixpoint tests_of_expr (e : dexpr) : list string :=
  match e with
  | DHas c => [String.append "has " c]
  | DEq a b => [String.append a (String.append " == " b)]
  | DAtom a => [a]
  | DNot x => tests_of_expr x
  | DAnd a b | DOr a b => app (tests_of_expr a) (tests_of_expr b)
  | DUnknown s => [String.append "?" s]
  end.

Fixpoint tests_of_stmt (s : dstmt) : list string :=
  match s with
  | DIf c t e => app (tests_of_expr c) (app (flat_map tests_of_stmt t) (flat_map tests_of_stmt e))
  | DSwitch subj cases => cons (String.append "switch " subj) (flat_map (fun cs => flat_map tests_of_stmt (snd cs)) cases)
  | DRange _ _ body => flat_map tests_of_stmt body
  | DOther k => [String.append "?stmt " k]
  | _ => []
  end.

Definition tests_of (l : list dstmt) : list string := flat_map tests_of_stmt l.

Definition tests_known (l : list dstmt) (known : list string) : bool :=
  forallb (fun t => existsb (String.eqb t) known) (tests_of l).
