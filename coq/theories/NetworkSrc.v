(* NetworkSrc.v — network.Driver.determineCurrentPriv as the source has it on this run (translated
   statement by statement, with its range loop and its `continue`) computes the model's
   Network.determine_current, for every level map, every iteration order and every prompt (C04). *)
From Scrapli Require Import Bytes Regex PlatformTypes Generated Channel Network DecideLang GeneratedSkel DecideLemmas.
From Coq Require Import String List Bool Arith Lia.
Import ListNotations.
Open Scope nat_scope.
Open Scope string_scope.

(* per level, in iteration order: (the prompt contains one of its not-contains strings, its pattern
   matches the prompt) *)
Definition flags_of (net : netcfg) (prompt : bytes) : list (bool * bool) :=
  map (fun kl => (util_contains_any prompt (lv_not_contains (snd kl)), rx_match (lv_pattern (snd kl)) prompt))
      (n_level_order net (n_levels net)).

(* the indices appended to possiblePrivs, newest first: an append event is attributed to the loop
   variable's binding in force when it happened *)
Fixpoint appended (st : store) : list nat :=
  match st with
  | []%list => []%list
  | ((k, v) :: rest)%list =>
      if String.eqb k "possiblePrivs" && String.eqb v "append(possiblePrivs, priv.Name)"
      then match sget rest "priv" with Some u => (String.length u :: appended rest)%list | None => appended rest end
      else appended rest
  end.

Definition dcp_env (fl : list (bool * bool)) : denv :=
  mkEnvX (fun _ => false) (fun _ _ => false) (fun _ => "") (fun _ => None)
         (fun st a b => if String.eqb a "len(possiblePrivs)" && String.eqb b "0"
                        then Some (Some (match appended st with []%list => true | _ => false end)) else None)
         (fun x => if String.eqb x "d.PrivilegeLevels" then List.length fl else O)
         (fun st a =>
            let at_idx (pick : bool * bool -> bool) :=
              match sget st "priv" with
              | Some u => match nth_error fl (String.length u) with Some f => Some (Some (pick f)) | None => Some None end
              | None => Some None
              end in
            if String.eqb a "util.StringContainsAny(currentPrompt, priv.NotContains)" then at_idx fst
            else if String.eqb a "priv.patternRe.MatchString(currentPrompt)" then at_idx snd
            else None).

(* (indices of the levels reported, in order; true = returned them, false = returned the error) *)
Definition dcp_run (fl : list (bool * bool)) : option (list nat * bool) :=
  match DecideLang.exec 12 (dcp_env fl) determine_current_priv_code [] with
  | Returned st v =>
      if String.eqb v "possiblePrivs, nil" then Some (rev (appended st), true)
      else if String.prefix "nil, fmt.Errorf(" v then Some (rev (appended st), false)
      else None
  | _ => None
  end.

(* the indices selected from [rest], counting from i *)
Fixpoint selected (rest : list (bool * bool)) (i : nat) : list nat :=
  match rest with
  | []%list => []%list
  | ((ex, mt) :: t)%list => if negb ex && mt then (i :: selected t (S i))%list else selected t (S i)
  end.

Definition dcp_body : list dstmt :=
  [DIf (DAtom "util.StringContainsAny(currentPrompt, priv.NotContains)") [DContinue] [];
   DIf (DAtom "priv.patternRe.MatchString(currentPrompt)") [DAssign "possiblePrivs" "append(possiblePrivs, priv.Name)"] []].

Lemma appended_skip : forall k v st, String.eqb k "possiblePrivs" = false -> appended ((k, v) :: st)%list = appended st.
Proof. intros k v st H. cbn [appended]. now rewrite H. Qed.

Lemma dcp_loop : forall rest pre st,
  exists st', range_loop (DecideLang.exec 11 (dcp_env (pre ++ rest)) dcp_body) "priv" (List.length rest) (List.length pre) st = Running st'
              /\ appended st' = (rev (selected rest (List.length pre)) ++ appended st)%list.
Proof.
  induction rest as [|[ex mt] t IH]; intros pre st.
  - exists st. cbn [range_loop List.length selected rev app]. split; reflexivity.
  - cbn [List.length range_loop].
    set (st0 := (("priv", unary (List.length pre)) :: st)%list).
    assert (Hb : DecideLang.exec 11 (dcp_env (pre ++ (ex, mt) :: t)) dcp_body st0
                 = if ex then Cont st0
                   else if mt then Running (("possiblePrivs", "append(possiblePrivs, priv.Name)") :: st0)%list
                   else Running st0).
    { unfold dcp_body, st0.
      cbn [DecideLang.exec eval dcp_env e_atoms e_atom String.eqb Ascii.eqb Bool.eqb sget fst snd].
      rewrite unary_length, nth_error_app2, Nat.sub_diag by lia. cbn [nth_error fst snd].
      reflexivity. }
    rewrite Hb.
    assert (H0 : appended st0 = appended st) by (apply appended_skip; reflexivity).
    pose proof (IH (pre ++ [(ex, mt)])%list) as IH'.
    rewrite <- app_assoc, app_length in IH'. cbn [app List.length] in IH'. rewrite Nat.add_1_r in IH'.
    cbn [selected]. destruct ex; cbn [negb andb].
    + destruct (IH' st0) as [st' [E Ha]]. exists st'. split; [exact E|]. now rewrite Ha, H0.
    + destruct mt.
      * destruct (IH' (("possiblePrivs", "append(possiblePrivs, priv.Name)") :: st0)%list) as [st' [E Ha]].
        exists st'. split; [exact E|]. rewrite Ha. cbn [rev]. rewrite <- app_assoc. f_equal.
        unfold st0. cbn [appended String.eqb Ascii.eqb Bool.eqb andb sget]. rewrite unary_length.
        reflexivity.
      * destruct (IH' st0) as [st' [E Ha]]. exists st'. split; [exact E|]. now rewrite Ha, H0.
Qed.

(* THE TIE (source side): for every list of per-level test outcomes, the translated function
   reports exactly the levels that are not excluded and whose pattern matches, in iteration order,
   and returns the error exactly when there is none *)
Theorem determine_current_priv_is_source : forall fl,
  dcp_run fl = Some (selected fl 0, match selected fl 0 with []%list => false | _ => true end).
Proof.
  intros fl. unfold dcp_run, determine_current_priv_code. fold dcp_body.
  rewrite exec_step_range.
  replace (e_len (dcp_env fl) "d.PrivilegeLevels") with (List.length fl) by reflexivity.
  destruct (dcp_loop fl []%list []%list) as [st' [E Ha]]. cbn [app List.length] in E, Ha.
  rewrite E. cbn [cont]. rewrite exec_step_if.
  replace (eval (dcp_env fl) st' (DEq "len(possiblePrivs)" "0"))
    with (Some (match appended st' with []%list => true | _ => false end)) by reflexivity.
  rewrite Ha, app_nil_r.
  destruct (selected fl 0) as [|i l] eqn:Hs.
  - cbn [rev]. rewrite exec_step_return. cbn [cont]. cbn [String.eqb Ascii.eqb Bool.eqb String.prefix].
    rewrite Ha. reflexivity.
  - assert (Hne : rev (i :: l) <> []%list) by (intro H; apply (f_equal (@List.length nat)) in H; rewrite rev_length in H; discriminate H).
    destruct (rev (i :: l)) as [|x r] eqn:Hr; [contradiction|].
    rewrite exec_step_nil. cbn [cont]. rewrite exec_step_return.
    cbn [String.eqb Ascii.eqb Bool.eqb]. rewrite Ha, app_nil_r, <- Hr, rev_involutive. reflexivity.
Qed.

(* (model side) determine_current is that selection *)
Lemma determine_current_selected : forall net prompt,
  determine_current net prompt
  = map (fun i => match nth_error (n_level_order net (n_levels net)) i with Some kl => lv_name (snd kl) | None => []%list end)
        (selected (flags_of net prompt) 0).
Proof.
  intros net prompt. unfold determine_current, flags_of.
  set (L := n_level_order net (n_levels net)).
  assert (G : forall pre rest : list (bytes * level),
    flat_map (fun kl : bytes * level => let l := snd kl in
                        if util_contains_any prompt (lv_not_contains l) then []%list
                        else if rx_match (lv_pattern l) prompt then [lv_name l] else []%list) rest
    = map (fun i => match nth_error (pre ++ rest) i with Some kl => lv_name (snd kl) | None => []%list end)
          (selected (map (fun kl : bytes * level => (util_contains_any prompt (lv_not_contains (snd kl)), rx_match (lv_pattern (snd kl)) prompt)) rest)
                    (List.length pre))).
  { intros pre rest. revert pre. induction rest as [|kl t IH]; intros pre; [reflexivity|].
    cbn [flat_map map selected].
    specialize (IH (pre ++ [kl])%list). rewrite <- app_assoc, app_length in IH. cbn [app List.length] in IH.
    rewrite Nat.add_1_r in IH.
    destruct (util_contains_any prompt (lv_not_contains (snd kl))); cbn [negb andb app]; [exact IH|].
    destruct (rx_match (lv_pattern (snd kl)) prompt); cbn [app map]; [|exact IH].
    rewrite nth_error_app2, Nat.sub_diag by lia. cbn [nth_error]. f_equal. exact IH. }
  exact (G []%list L).
Qed.

(* ---------- network SendCommand / SendCommands / SendConfigs: which level an operation acquires ----------
   (C04, last sentence of the property; the model is NetworkHistory.run_aop) *)

Inductive ns_out :=
| NsForward (acquired : option string) (fwd : string)   (* acquire (or not), then hand over to the generic driver *)
| NsPrivError                                           (* "failed acquiring default desired privilege level" *)
| NsError                                               (* the acquire's own error *)
| NsBad.

(* cached_default: d.CurrentPriv == d.DefaultDesiredPriv; acq_ok: AcquirePriv succeeds; priv_empty:
   the operation names no privilege level *)
Definition ns_env (cached_default acq_ok priv_empty : bool) : denv :=
  mkEnvX (fun _ => false)
         (fun a b => String.eqb a "d.CurrentPriv" && String.eqb b "d.DefaultDesiredPriv" && cached_default)
         (fun _ => "") (fun _ => None)
         (fun st a b =>
            if String.eqb a "err" && String.eqb b "nil" then
              match sget st "err" with
              | Some v => if String.prefix "d.AcquirePriv(" v then Some (Some acq_ok) else Some None
              | None => Some (Some true)          (* NewOperation(opts...) succeeded *)
              end
            else if String.eqb a "targetPriv" && String.eqb b """""" then
              match sget st "targetPriv" with
              | Some "op.PrivilegeLevel" => Some (Some priv_empty)
              | _ => Some None
              end
            else None)
         (fun _ => O) (fun _ _ => None).

Definition ns_run (code : list dstmt) (cached_default acq_ok priv_empty : bool) : ns_out :=
  match DecideLang.exec 20 (ns_env cached_default acq_ok priv_empty) code [] with
  | Returned st v =>
      let acquired := match sget st "err" with
                      | Some "d.AcquirePriv(d.DefaultDesiredPriv)" => Some "default"
                      | Some "d.AcquirePriv(targetPriv)" =>
                          match sget st "targetPriv" with
                          | Some "op.PrivilegeLevel" => Some "requested"
                          | Some "defaultConfigurationPrivLevel" => Some "configuration"
                          | _ => Some "?"
                          end
                      | Some _ => Some "?"
                      | None => None
                      end in
      if String.prefix "d.Driver.Send" v then NsForward acquired v
      else if String.eqb v "nil, fmt.Errorf( ""%w: failed acquiring default desired privilege level"", util.ErrPrivilegeError, )" then NsPrivError
      else if String.eqb v "nil, err" then NsError
      else NsBad
  | _ => NsBad
  end.

Definition ns_out_eqb (a b : ns_out) : bool :=
  match a, b with
  | NsForward x f, NsForward y g =>
      String.eqb f g && match x, y with None, None => true | Some s, Some t => String.eqb s t | _, _ => false end
  | NsPrivError, NsPrivError | NsError, NsError => true
  | _, _ => false
  end.

(* commands: no acquire when the cached level is the default desired level (the shortcut, F25),
   else acquire the DEFAULT level; configs: ALWAYS acquire — the requested level, "configuration"
   when none is requested *)
Definition ns_table_ok : bool :=
  forallb (fun cd => forallb (fun ok => forallb (fun pe =>
    ns_out_eqb (ns_run net_send_command_code cd ok pe)
               (if cd then NsForward None "d.Driver.SendCommand(command, opts...)"
                else if ok then NsForward (Some "default") "d.Driver.SendCommand(command, opts...)" else NsPrivError)
    && ns_out_eqb (ns_run net_send_commands_code cd ok pe)
               (if cd then NsForward None "d.Driver.SendCommands(commands, opts...)"
                else if ok then NsForward (Some "default") "d.Driver.SendCommands(commands, opts...)" else NsPrivError)
    && ns_out_eqb (ns_run net_send_configs_code cd ok pe)
               (if ok then NsForward (Some (if pe then "configuration" else "requested")) "d.Driver.SendCommands(configs, opts...)"
                else NsError))
    [true; false]) [true; false]) [true; false].

Theorem net_send_is_source : ns_table_ok = true.
Proof. vm_compute. reflexivity. Qed.

(* every test the translated code makes is one the environment above was written for (an unknown
   equality would otherwise evaluate to false without notice) *)
Definition net_send_known : list string := "d.CurrentPriv == d.DefaultDesiredPriv" :: "targetPriv == """"" :: "err == nil" :: nil.
Lemma net_send_tests_known : tests_known (net_send_command_code ++ net_send_commands_code ++ net_send_configs_code)%list net_send_known = true.
Proof. vm_compute. reflexivity. Qed.
