(* OptionsSrc.v — the closure every option constructor of driver/options/*.go returns, as the
   source has it on this run (GeneratedSkel.option_code, translated statement by statement by
   gen/decide.go), does what the model Options.v says the option does (C19):

     - it type-asserts exactly the object [opt_target] names, and when the assertion fails it
       returns util.ErrIgnoredOption having assigned nothing and called nothing ("ignored without
       error", "on nothing else");
     - when the assertion holds (and its value check passes) it assigns exactly the fields of
       [opt_writes], in order, on that object — additively exactly for the additive option,
       the constant true/false exactly where the model writes a constant — and returns nil;
     - when its value check fails it assigns nothing and returns an error; the options whose check
       comes BEFORE the assertion (CkPre) report it whatever the object is.

   Every constructor of the model is covered (Options.opt_samples_complete), and C19_inventory ties
   the model's constructor names to the source's; so this is a statement about every option
   function of the library.  The closures are straight-line code with at most a type assertion, a
   validity test and a file lookup, so the check is a finite evaluation per option. *)
From Scrapli Require Import Bytes Generated Options DecideLang GeneratedSkel.
From Coq Require Import String List Bool Ascii.
Import ListNotations.
Open Scope string_scope.

Definition obj_type (ob : obj) : string :=
  match ob with
  | OGeneric => "*generic.Driver" | OArgs => "*transport.Args" | OSSHArgs => "*transport.SSHArgs"
  | OSystem => "*transport.System" | OStandard => "*transport.Standard" | OFile => "*transport.File"
  | OChannel => "*channel.Channel" | ONetwork => "*network.Driver" | ONetconf => "*netconf.Driver"
  end.

(* the Go field behind a model field: the display name, except where the model had to tell two
   objects' fields of the same name apart *)
Definition go_field (f : field) : bytes :=
  match f with
  | FN FNetOnOpen => bs "OnOpen"
  | FN FNetOnClose => bs "OnClose"
  | FS FFilePath => bs "F"
  | _ => field_name f
  end.

Definition code_of (o : opt) : list dstmt :=
  match find (fun e => beqb (bs (fst e)) (opt_name o)) option_code with
  | Some e => snd e
  | None => [DOther "no such option"]
  end.

(* ok: the type assertion holds; good: the value is valid / the file is found *)
Definition o_env (ok good : bool) : denv :=
  mkEnvX (fun _ => false) (fun _ _ => false)
         (fun f => if String.eqb f "transportType" then (if good then "transport.SystemTransport" else "bogus")
                   else if String.eqb f "s" then (if good then "netconf.V1Dot0" else "bogus") else "")
         (fun _ => None)
         (fun st a b => if String.eqb a "err" && String.eqb b "nil" then Some (Some good) else None)
         (fun _ => O)
         (fun st a => if String.eqb a "ok" then
                        match sget st "ok" with
                        | Some v => if String.prefix "ok of o.(" v then Some (Some ok) else Some None
                        | None => Some None
                        end
                      else None).

Fixpoint has_dot (s : string) : bool :=
  match s with EmptyString => false | String c r => Ascii.eqb c "." || has_dot r end.

(* the events of a run, oldest first: field writes are the assignments whose left side has a dot *)
Definition field_writes (st : store) : list (string * string) :=
  filter (fun kv => has_dot (fst kv) && negb (String.eqb (fst kv) "!call")) (rev st).
Definition calls (st : store) : list string := calls_of st.

(* the variable bound by the assertion and the asserted type *)
Definition asserted (st : store) : option (string * string) :=
  match filter (fun kv => String.prefix "o.(" (snd kv)) (rev st) with
  | (v, t) :: _ => Some (v, t)
  | [] => None
  end.

Definition run (o : opt) (ok good : bool) : dres := DecideLang.exec 40 (o_env ok good) (code_of o) [].

(* one write of the model against one assignment of the source, on variable v *)
Definition write_matches (v : string) (w : write) (kv : string * string) : bool :=
  beqb (bs (fst kv)) (bs v ++ [46] ++ go_field (w_field w))%list
  && match w with
     | WApp _ _ => String.prefix ("append(" ++ fst kv ++ ", ") (snd kv)
     | WB _ true => String.eqb (snd kv) "true"
     | WB _ false => String.eqb (snd kv) "false"
     | _ => negb (String.prefix "append(" (snd kv)) && negb (String.eqb (snd kv) "true") && negb (String.eqb (snd kv) "false")
     end.

Fixpoint writes_match (v : string) (ws : list write) (l : list (string * string)) : bool :=
  match ws, l with
  | [], [] => true
  | w :: ws', kv :: l' => write_matches v w kv && writes_match v ws' l'
  | _, _ => false
  end.

Definition is_pre (o : opt) : bool := match opt_check o with CkPre _ => true | _ => false end.
Definition has_check (o : opt) : bool := match opt_check o with CkNone => false | _ => true end.

(* [o] is a sample whose value is valid / whose file is found *)
Definition option_src_ok (o : opt) : bool :=
  (* applied to its own object, valid value: the model's writes, nil *)
  match run o true true with
  | Returned st "nil" =>
      match asserted st with
      | Some (v, t) => String.eqb t ("o.(" ++ obj_type (opt_target o) ++ ")")
                       && writes_match v (opt_writes o) (field_writes st)
      | None => false
      end
  | _ => false
  end
  (* applied to any other object: ignored, nothing assigned, nothing called *)
  && match run o false true with
     | Returned st "util.ErrIgnoredOption" =>
         match field_writes st, calls st with [], [] => true | _, _ => false end
     | _ => false
     end
  (* invalid value / file not found: an error, nothing assigned; before the assertion for CkPre *)
  && (if has_check o then
        match run o true false with
        | Returned st v => negb (String.eqb v "nil") && negb (String.eqb v "util.ErrIgnoredOption")
                           && match field_writes st with [] => true | _ => false end
        | _ => false
        end
        && match run o false false with
           | Returned st v => (if is_pre o then negb (String.eqb v "util.ErrIgnoredOption") && negb (String.eqb v "nil")
                               else String.eqb v "util.ErrIgnoredOption")
                              && match field_writes st with [] => true | _ => false end
           | _ => false
           end
      else true).

(* one valid sample per constructor (Options.opt_samples with the lookups succeeding) *)
Definition good_samples : list opt :=
  map (fun o => match o with
                | WithTransportType _ => WithTransportType tt_system
                | WithNetconfPreferredVersion _ => WithNetconfPreferredVersion ncd_V1Dot0
                | WithSSHConfigFile s _ => WithSSHConfigFile s true
                | WithSSHConfigFileSystem _ => WithSSHConfigFileSystem (Some [])
                | WithSSHKnownHostsFile s _ => WithSSHKnownHostsFile s true
                | WithSSHKnownHostsFileSystem _ => WithSSHKnownHostsFileSystem (Some [])
                | x => x
                end) opt_samples.

Definition options_src_ok : bool :=
  forallb option_src_ok good_samples
  && forallb (fun o => pre_ok o && match post_err o with None => true | Some _ => false end) good_samples
  && forallb (fun p => beqb (fst p) (snd p)) (combine (map opt_name good_samples) (map opt_name opt_samples)).

Definition failing_options : list bytes := map opt_name (filter (fun o => negb (option_src_ok o)) good_samples).


(* ---------- the loops that apply an option list to an object ---------- *)
From Scrapli Require Import DecideLemmas.
From Coq Require Import Arith Lia.
Open Scope nat_scope.

(* what applying one closure to the object at hand yields *)
Inductive outcome := OApplied | OIgnored | OFailed.

Definition outcome_of (ob : obj) (o : opt) : outcome :=
  if negb (pre_ok o) then OFailed
  else if obj_beq (opt_target o) ob then match post_err o with Some _ => OFailed | None => OApplied end
  else OIgnored.

Definition loop_env (outs : list outcome) (lst : string) : denv :=
  mkEnvX (fun _ => false) (fun _ _ => false) (fun _ => "") (fun _ => None)
         (fun st a b =>
            if String.eqb a "err" && String.eqb b "nil" then
              match sget st "option" with
              | Some u => match nth_error outs (String.length u) with
                          | Some OApplied => Some (Some true)
                          | Some _ => Some (Some false)
                          | None => Some None
                          end
              | None => Some None
              end
            else None)
         (fun x => if String.eqb x lst then List.length outs else O)
         (fun st a =>
            if String.eqb a "errors.Is(err, util.ErrIgnoredOption)" then
              match sget st "option" with
              | Some u => match nth_error outs (String.length u) with
                          | Some OIgnored => Some (Some true)
                          | Some _ => Some (Some false)
                          | None => Some None
                          end
              | None => Some None
              end
            else None).

(* the canonical loop body: call the closure on the object, stop at an error that is not "ignored" *)
Definition loop_body (call : string) : list dstmt :=
  [DAssign "err" call;
   DIf (DNot (DEq "err" "nil")) [DIf (DNot (DAtom "errors.Is(err, util.ErrIgnoredOption)")) [DReturn "nil, err"] []] []].

Definition is_apply (kv : string * string) : bool := String.eqb (fst kv) "err".
Definition napplied (st : store) : nat := List.length (filter is_apply st).

Fixpoint first_failed (outs : list outcome) (i : nat) : option nat :=
  match outs with
  | [] => None
  | OFailed :: _ => Some i
  | _ :: t => first_failed t (S i)
  end.

Lemma option_loop_gen : forall call lst rest pre st,
  match first_failed rest (List.length pre) with
  | Some j => exists st',
      range_loop (DecideLang.exec 9 (loop_env (pre ++ rest) lst) (loop_body call)) "option" (List.length rest) (List.length pre) st
      = Returned st' "nil, err" /\ napplied st' + List.length pre = napplied st + S j
  | None => exists st',
      range_loop (DecideLang.exec 9 (loop_env (pre ++ rest) lst) (loop_body call)) "option" (List.length rest) (List.length pre) st
      = Running st' /\ napplied st' = napplied st + List.length rest
  end.
Proof.
  intros call lst rest. induction rest as [|o t IH]; intros pre st.
  - cbn [first_failed List.length range_loop]. exists st. split; [reflexivity | lia].
  - cbn [List.length range_loop].
    set (st1 := (("err", call) :: ("option", unary (List.length pre)) :: st)%list).
    assert (Hb : DecideLang.exec 9 (loop_env (pre ++ o :: t) lst) (loop_body call) (("option", unary (List.length pre)) :: st)%list
                 = match o with OFailed => Returned st1 "nil, err" | _ => Running st1 end).
    { unfold loop_body, st1.
      cbn [DecideLang.exec eval loop_env e_atoms e_atom e_eqs e_eq String.eqb Ascii.eqb Bool.eqb sget fst snd andb option_map negb].
      rewrite unary_length, nth_error_app2, Nat.sub_diag by lia. cbn [nth_error].
      destruct o; reflexivity. }
    rewrite Hb.
    assert (Hn : napplied st1 = S (napplied st)) by reflexivity.
    specialize (IH (pre ++ [o])%list st1).
    rewrite <- app_assoc in IH. cbn [app] in IH. rewrite app_length in IH. cbn [List.length] in IH.
    rewrite Nat.add_1_r in IH.
    destruct o; cbn [first_failed].
    + destruct (first_failed t (S (List.length pre))) as [j|]; destruct IH as [st' [E H1]]; exists st'; (split; [exact E | lia]).
    + destruct (first_failed t (S (List.length pre))) as [j|]; destruct IH as [st' [E H1]]; exists st'; (split; [exact E | lia]).
    + exists st1. split; [reflexivity | lia].
Qed.

(* the model's loop stops exactly there *)
Lemma pass_first_failed : forall ob opts s,
  match first_failed (map (outcome_of ob) opts) 0 with
  | Some _ => forall s', pass ob opts s <> Ok s'
  | None => exists s', pass ob opts s = Ok s'
  end.
Proof.
  intros ob opts.
  assert (G : forall i s, match first_failed (map (outcome_of ob) opts) i with
                          | Some _ => forall s', pass ob opts s <> Ok s'
                          | None => exists s', pass ob opts s = Ok s' end).
  { induction opts as [|o t IH]; intros i s; cbn [map first_failed pass]; [eexists; reflexivity|].
    unfold outcome_of at 1, apply_on.
    destruct (negb (pre_ok o)); [intros s' H; discriminate H|].
    destruct (obj_beq (opt_target o) ob).
    - destruct (post_err o); [intros s' H; discriminate H|]. cbn [bind]. apply IH.
    - cbn [bind]. apply IH. }
  intros s. apply G.
Qed.

(* every option loop of the source has the canonical shape *)
Lemma option_loops_canonical :
  Forall (fun e => exists lst call, snd e = DRange "option" lst (loop_body call)) option_loops.
Proof. unfold option_loops. repeat constructor; do 2 eexists; reflexivity. Qed.

(* THE TIE: each of the eight loops that apply an option list to an object (the three drivers, the
   transport, Args, SSHArgs, TelnetArgs, the channel), as the source has it on this run, calls the
   closures in list order and returns the error of the first one that fails with anything but the
   ignored sentinel, having applied no later closure; with no such failure it applies them all *)
Theorem option_loops_are_source : forall e, In e option_loops ->
  forall outs, exists lst,
  match first_failed outs 0 with
  | Some j => exists st', DecideLang.exec 10 (loop_env outs lst) [snd e] []%list = Returned st' "nil, err" /\ napplied st' = S j
  | None => exists st', DecideLang.exec 10 (loop_env outs lst) [snd e] []%list = Running st' /\ napplied st' = List.length outs
  end.
Proof.
  intros e He outs.
  pose proof option_loops_canonical as HC. rewrite Forall_forall in HC.
  destruct (HC e He) as [lst [call ->]]. exists lst.
  rewrite exec_step_range.
  assert (Hl : e_len (loop_env outs lst) lst = List.length outs).
  { cbn [loop_env e_len]. now rewrite String.eqb_refl. }
  rewrite Hl.
  pose proof (option_loop_gen call lst outs []%list []%list) as HL. cbn [app List.length] in HL.
  destruct (first_failed outs 0) as [j|].
  - destruct HL as [st' [-> H1]]. cbn [cont]. exists st'. split; [reflexivity|].
    change (napplied []%list) with 0 in H1. lia.
  - destruct HL as [st' [-> H1]]. cbn [cont]. rewrite exec_step_nil. exists st'. split; [reflexivity|].
    change (napplied []%list) with 0 in H1. lia.
Qed.
