(* Platform.v — the embedded platform definitions (regenerated into Generated.v from
   assets/platforms/*.yaml on every run): well-formedness as a decidable predicate, the variant
   merge of platform/definition.go, the interpretation of on-open / on-close steps (onx.go).
   Definitions only. *)
From Scrapli Require Import Bytes Regex PlatformTypes Generated Channel Network.
Open Scope N_scope.

Fixpoint lookup_bytes {A} (k : bytes) (l : list (bytes * A)) : option A :=
  match l with [] => None | (k', v) :: t => if beqb k k' then Some v else lookup_bytes k t end.

Definition DOC_EXAMPLE : bytes := bs "example".       (* the documentation-only definition file *)

(* every advertised name has an embedded definition file *)
Definition names_ok : bool := forallb (fun n => mem_bytes n embedded_platform_files) advertised_platforms.

Definition ops_wf (level_names : list bytes) (network : bool) (ops : option (list onx_op)) : bool :=
  match ops with
  | None => true
  | Some l => forallb (fun o => match o with
                                | OpWrite (Some _) _ => true
                                | OpReturn => true
                                | OpAcquire None => network
                                | OpAcquire (Some t) => network && mem_bytes t level_names
                                | OpSendCommand (Some _) => network
                                | _ => false
                                end) l
  end.

Definition net_of (p : platform) (joined : re) : netcfg :=
  mkNet (pf_levels p) (pf_default_level p) [] (mkCfg default_prompt_search_depth joined default_return_char 0%Z)
        (fun _ l => l) (fun l => l).

(* a level's canonical prompt matches its own pattern and the joined pattern, survives its
   not-contains filter, and the level is among those the driver infers from it *)
Definition level_prompt_ok (p : platform) (joined : re) (prompts : list (bytes * bytes)) (kl : bytes * level) : bool :=
  match lookup_bytes (fst kl) prompts with
  | None => false
  | Some pr =>
      rx_match (lv_pattern (snd kl)) pr && rx_match joined pr
      && negb (util_contains_any pr (lv_not_contains (snd kl)))
      && mem_bytes (lv_name (snd kl)) (determine_current (net_of p joined) pr)
  end.

(* levels other than the root can be entered and left *)
Definition level_cmds_ok (kl : bytes * level) : bool :=
  match lv_previous (snd kl) with
  | [] => true
  | _ => negb (beqb (lv_deescalate (snd kl)) [])       (* escalate may be empty: "only a starting point" *)
  end.

Definition platform_wf (pd : platform_def) : bool :=
  let p := pd_default pd in
  let prompts := match lookup_bytes (pd_file pd) platform_prompts with Some l => l | None => [] end in
  if beqb (pf_driver_type p) (bs "generic") then
    ops_wf [] false (pf_on_open p) && ops_wf [] false (pf_on_close p)
  else if beqb (pf_driver_type p) (bs "network") then
    tree_wf (pf_levels p)
    && mem_bytes (pf_default_level p) (names (pf_levels p))
    && negb (mem_bytes [] (names (pf_levels p)))
    && forallb (level_prompt_ok p (pd_joined pd) prompts) (pf_levels p)
    && forallb level_cmds_ok (pf_levels p)
    && ops_wf (names (pf_levels p)) false (pf_on_open p) && ops_wf (names (pf_levels p)) false (pf_on_close p)
    && ops_wf (names (pf_levels p)) true (pf_net_on_open p) && ops_wf (names (pf_levels p)) true (pf_net_on_close p)
  else false.

Definition real_platforms : list platform_def :=
  filter (fun pd => negb (beqb (pd_file pd) DOC_EXAMPLE)) platform_defs.

(* mergeVariant: a variant replaces exactly the sections it defines *)
Definition merge_variant (b v : platform) : platform :=
  mkPlatform
    (match pf_driver_type v with [] => pf_driver_type b | t => t end)
    (match pf_failed_when v with [] => pf_failed_when b | l => l end)
    (match pf_on_open v with None => pf_on_open b | o => o end)
    (match pf_on_close v with None => pf_on_close b | o => o end)
    (match pf_levels v with [] => pf_levels b | l => l end)
    (match pf_default_level v with [] => pf_default_level b | d => d end)
    (match pf_net_on_open v with None => pf_net_on_open b | o => o end)
    (match pf_net_on_close v with None => pf_net_on_close b | o => o end)
    (pf_options b).

(* the writes / commands of an on-open or on-close list, as the driver performs them: what
   asGenericOnX / asNetworkOnX do, step by step (network steps become driver calls) *)
Inductive onx_action := XWrite (b : bytes) (redacted : bool) | XReturn | XAcquire (target : bytes) | XSendCommand (c : bytes) | XBad.
Definition onx_actions (default_level : bytes) (ops : option (list onx_op)) : list onx_action :=
  match ops with
  | None => []
  | Some l => map (fun o => match o with
                            | OpWrite (Some i) r => XWrite i r
                            | OpReturn => XReturn
                            | OpAcquire None => XAcquire default_level
                            | OpAcquire (Some t) => XAcquire t
                            | OpSendCommand (Some c) => XSendCommand c
                            | _ => XBad
                            end) l
  end.
