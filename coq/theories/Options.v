(* Options.v — driver/options/*.go and the constructors that apply them (C19).

   Every `WithXxx` constructor of driver/options returns a closure that type-switches on the object
   it is applied to and returns util.ErrIgnoredOption for every other object.  The constructors
   (generic.NewDriver, transport.NewTransport, channel.NewChannel, network.NewDriver,
   netconf.NewDriver, platform.setDriver) hand the WHOLE option list to every object they create,
   skipping the ignored sentinel.  The model:

     settings   one field per public setting an option can touch (43 fields, 9 objects)
     opt        one constructor per `With*` function, carrying its argument
     opt_target / opt_check / opt_writes
                the declarative reading of each closure: which object it type-asserts, whether it
                validates (before or after the assertion) and which fields it assigns
     pass       one `for _, option := range opts` loop over ONE object
     build      the constructors' passes in source order + the derived settings
     platform_option / platform_opts / build_platform
                platform/options.go asOptions (type assertions = Panic) and definition.go setDriver

   Values that are Go pointers/funcs/interfaces are identity tags (N, 0 = nil); regexes are their
   source strings; durations are nanoseconds.  [The section between BEGIN/END GENERATED RECORD is
   mechanical boilerplate: the record, its typed getters/setters and the field tables.] *)
From Scrapli Require Import Bytes Regex PlatformTypes Generated.
Open Scope N_scope.

(* ---------- the objects an option can be applied to ---------- *)
Inductive obj :=
| OGeneric    (* *generic.Driver *)
| OArgs       (* *transport.Args *)
| OSSHArgs    (* *transport.SSHArgs *)
| OSystem     (* *transport.System *)
| OStandard   (* *transport.Standard *)
| OFile       (* *transport.File *)
| OChannel    (* *channel.Channel *)
| ONetwork    (* *network.Driver *)
| ONetconf.   (* *netconf.Driver *)
Scheme Equality for obj.

Inductive ctor_kind := Generic | Network | Netconf.
Scheme Equality for ctor_kind.

(* BEGIN GENERATED RECORD *)
Inductive nfield := FLogger | FOnOpen | FOnClose | FPort | FTimeoutSocket | FReadSize | FTermHeight | FTermWidth | FUserImpl | FTimeoutOps | FReadDelay | FPromptSearchDepth | FChannelLog | FNetOnOpen | FNetOnClose.
Inductive bfield := FStrictKey | FNetconfConnection | FAuthBypass | FForceSelfClosingTags | FExcludeHeader.
Inductive sfield := FTransportType | FUser | FPassword | FPrivateKeyPath | FPrivateKeyPassPhrase | FConfigFile | FKnownHostsFile | FOpenBin | FFilePath | FUsernamePattern | FPasswordPattern | FPassphrasePattern | FPromptPattern | FReturnChar | FAuthSecondary | FDefaultDesiredPriv | FPreferredVersion.
Inductive lfield := FFailedWhen | FOpenArgs | FExtraArgs | FExtraCiphers | FExtraKexs | FPrivilegeLevels.

Record settings := mkSettings {
  s_Logger : N;
  s_OnOpen : N;
  s_OnClose : N;
  s_Port : N;
  s_TimeoutSocket : N;
  s_ReadSize : N;
  s_TermHeight : N;
  s_TermWidth : N;
  s_UserImpl : N;
  s_TimeoutOps : N;
  s_ReadDelay : N;
  s_PromptSearchDepth : N;
  s_ChannelLog : N;
  s_NetOnOpen : N;
  s_NetOnClose : N;
  s_StrictKey : bool;
  s_NetconfConnection : bool;
  s_AuthBypass : bool;
  s_ForceSelfClosingTags : bool;
  s_ExcludeHeader : bool;
  s_TransportType : bytes;
  s_User : bytes;
  s_Password : bytes;
  s_PrivateKeyPath : bytes;
  s_PrivateKeyPassPhrase : bytes;
  s_ConfigFile : bytes;
  s_KnownHostsFile : bytes;
  s_OpenBin : bytes;
  s_FilePath : bytes;
  s_UsernamePattern : bytes;
  s_PasswordPattern : bytes;
  s_PassphrasePattern : bytes;
  s_PromptPattern : bytes;
  s_ReturnChar : bytes;
  s_AuthSecondary : bytes;
  s_DefaultDesiredPriv : bytes;
  s_PreferredVersion : bytes;
  s_FailedWhen : list bytes;
  s_OpenArgs : list bytes;
  s_ExtraArgs : list bytes;
  s_ExtraCiphers : list bytes;
  s_ExtraKexs : list bytes;
  s_PrivilegeLevels : list bytes
}.

Definition getN (f : nfield) (s : settings) : N :=
  match f with
  | FLogger => s_Logger s
  | FOnOpen => s_OnOpen s
  | FOnClose => s_OnClose s
  | FPort => s_Port s
  | FTimeoutSocket => s_TimeoutSocket s
  | FReadSize => s_ReadSize s
  | FTermHeight => s_TermHeight s
  | FTermWidth => s_TermWidth s
  | FUserImpl => s_UserImpl s
  | FTimeoutOps => s_TimeoutOps s
  | FReadDelay => s_ReadDelay s
  | FPromptSearchDepth => s_PromptSearchDepth s
  | FChannelLog => s_ChannelLog s
  | FNetOnOpen => s_NetOnOpen s
  | FNetOnClose => s_NetOnClose s
  end.
Definition setN (f : nfield) (v : N) (s : settings) : settings :=
  match f with
  | FLogger => mkSettings v (s_OnOpen s) (s_OnClose s) (s_Port s) (s_TimeoutSocket s) (s_ReadSize s) (s_TermHeight s) (s_TermWidth s) (s_UserImpl s) (s_TimeoutOps s) (s_ReadDelay s) (s_PromptSearchDepth s) (s_ChannelLog s) (s_NetOnOpen s) (s_NetOnClose s) (s_StrictKey s) (s_NetconfConnection s) (s_AuthBypass s) (s_ForceSelfClosingTags s) (s_ExcludeHeader s) (s_TransportType s) (s_User s) (s_Password s) (s_PrivateKeyPath s) (s_PrivateKeyPassPhrase s) (s_ConfigFile s) (s_KnownHostsFile s) (s_OpenBin s) (s_FilePath s) (s_UsernamePattern s) (s_PasswordPattern s) (s_PassphrasePattern s) (s_PromptPattern s) (s_ReturnChar s) (s_AuthSecondary s) (s_DefaultDesiredPriv s) (s_PreferredVersion s) (s_FailedWhen s) (s_OpenArgs s) (s_ExtraArgs s) (s_ExtraCiphers s) (s_ExtraKexs s) (s_PrivilegeLevels s)
  | FOnOpen => mkSettings (s_Logger s) v (s_OnClose s) (s_Port s) (s_TimeoutSocket s) (s_ReadSize s) (s_TermHeight s) (s_TermWidth s) (s_UserImpl s) (s_TimeoutOps s) (s_ReadDelay s) (s_PromptSearchDepth s) (s_ChannelLog s) (s_NetOnOpen s) (s_NetOnClose s) (s_StrictKey s) (s_NetconfConnection s) (s_AuthBypass s) (s_ForceSelfClosingTags s) (s_ExcludeHeader s) (s_TransportType s) (s_User s) (s_Password s) (s_PrivateKeyPath s) (s_PrivateKeyPassPhrase s) (s_ConfigFile s) (s_KnownHostsFile s) (s_OpenBin s) (s_FilePath s) (s_UsernamePattern s) (s_PasswordPattern s) (s_PassphrasePattern s) (s_PromptPattern s) (s_ReturnChar s) (s_AuthSecondary s) (s_DefaultDesiredPriv s) (s_PreferredVersion s) (s_FailedWhen s) (s_OpenArgs s) (s_ExtraArgs s) (s_ExtraCiphers s) (s_ExtraKexs s) (s_PrivilegeLevels s)
  | FOnClose => mkSettings (s_Logger s) (s_OnOpen s) v (s_Port s) (s_TimeoutSocket s) (s_ReadSize s) (s_TermHeight s) (s_TermWidth s) (s_UserImpl s) (s_TimeoutOps s) (s_ReadDelay s) (s_PromptSearchDepth s) (s_ChannelLog s) (s_NetOnOpen s) (s_NetOnClose s) (s_StrictKey s) (s_NetconfConnection s) (s_AuthBypass s) (s_ForceSelfClosingTags s) (s_ExcludeHeader s) (s_TransportType s) (s_User s) (s_Password s) (s_PrivateKeyPath s) (s_PrivateKeyPassPhrase s) (s_ConfigFile s) (s_KnownHostsFile s) (s_OpenBin s) (s_FilePath s) (s_UsernamePattern s) (s_PasswordPattern s) (s_PassphrasePattern s) (s_PromptPattern s) (s_ReturnChar s) (s_AuthSecondary s) (s_DefaultDesiredPriv s) (s_PreferredVersion s) (s_FailedWhen s) (s_OpenArgs s) (s_ExtraArgs s) (s_ExtraCiphers s) (s_ExtraKexs s) (s_PrivilegeLevels s)
  | FPort => mkSettings (s_Logger s) (s_OnOpen s) (s_OnClose s) v (s_TimeoutSocket s) (s_ReadSize s) (s_TermHeight s) (s_TermWidth s) (s_UserImpl s) (s_TimeoutOps s) (s_ReadDelay s) (s_PromptSearchDepth s) (s_ChannelLog s) (s_NetOnOpen s) (s_NetOnClose s) (s_StrictKey s) (s_NetconfConnection s) (s_AuthBypass s) (s_ForceSelfClosingTags s) (s_ExcludeHeader s) (s_TransportType s) (s_User s) (s_Password s) (s_PrivateKeyPath s) (s_PrivateKeyPassPhrase s) (s_ConfigFile s) (s_KnownHostsFile s) (s_OpenBin s) (s_FilePath s) (s_UsernamePattern s) (s_PasswordPattern s) (s_PassphrasePattern s) (s_PromptPattern s) (s_ReturnChar s) (s_AuthSecondary s) (s_DefaultDesiredPriv s) (s_PreferredVersion s) (s_FailedWhen s) (s_OpenArgs s) (s_ExtraArgs s) (s_ExtraCiphers s) (s_ExtraKexs s) (s_PrivilegeLevels s)
  | FTimeoutSocket => mkSettings (s_Logger s) (s_OnOpen s) (s_OnClose s) (s_Port s) v (s_ReadSize s) (s_TermHeight s) (s_TermWidth s) (s_UserImpl s) (s_TimeoutOps s) (s_ReadDelay s) (s_PromptSearchDepth s) (s_ChannelLog s) (s_NetOnOpen s) (s_NetOnClose s) (s_StrictKey s) (s_NetconfConnection s) (s_AuthBypass s) (s_ForceSelfClosingTags s) (s_ExcludeHeader s) (s_TransportType s) (s_User s) (s_Password s) (s_PrivateKeyPath s) (s_PrivateKeyPassPhrase s) (s_ConfigFile s) (s_KnownHostsFile s) (s_OpenBin s) (s_FilePath s) (s_UsernamePattern s) (s_PasswordPattern s) (s_PassphrasePattern s) (s_PromptPattern s) (s_ReturnChar s) (s_AuthSecondary s) (s_DefaultDesiredPriv s) (s_PreferredVersion s) (s_FailedWhen s) (s_OpenArgs s) (s_ExtraArgs s) (s_ExtraCiphers s) (s_ExtraKexs s) (s_PrivilegeLevels s)
  | FReadSize => mkSettings (s_Logger s) (s_OnOpen s) (s_OnClose s) (s_Port s) (s_TimeoutSocket s) v (s_TermHeight s) (s_TermWidth s) (s_UserImpl s) (s_TimeoutOps s) (s_ReadDelay s) (s_PromptSearchDepth s) (s_ChannelLog s) (s_NetOnOpen s) (s_NetOnClose s) (s_StrictKey s) (s_NetconfConnection s) (s_AuthBypass s) (s_ForceSelfClosingTags s) (s_ExcludeHeader s) (s_TransportType s) (s_User s) (s_Password s) (s_PrivateKeyPath s) (s_PrivateKeyPassPhrase s) (s_ConfigFile s) (s_KnownHostsFile s) (s_OpenBin s) (s_FilePath s) (s_UsernamePattern s) (s_PasswordPattern s) (s_PassphrasePattern s) (s_PromptPattern s) (s_ReturnChar s) (s_AuthSecondary s) (s_DefaultDesiredPriv s) (s_PreferredVersion s) (s_FailedWhen s) (s_OpenArgs s) (s_ExtraArgs s) (s_ExtraCiphers s) (s_ExtraKexs s) (s_PrivilegeLevels s)
  | FTermHeight => mkSettings (s_Logger s) (s_OnOpen s) (s_OnClose s) (s_Port s) (s_TimeoutSocket s) (s_ReadSize s) v (s_TermWidth s) (s_UserImpl s) (s_TimeoutOps s) (s_ReadDelay s) (s_PromptSearchDepth s) (s_ChannelLog s) (s_NetOnOpen s) (s_NetOnClose s) (s_StrictKey s) (s_NetconfConnection s) (s_AuthBypass s) (s_ForceSelfClosingTags s) (s_ExcludeHeader s) (s_TransportType s) (s_User s) (s_Password s) (s_PrivateKeyPath s) (s_PrivateKeyPassPhrase s) (s_ConfigFile s) (s_KnownHostsFile s) (s_OpenBin s) (s_FilePath s) (s_UsernamePattern s) (s_PasswordPattern s) (s_PassphrasePattern s) (s_PromptPattern s) (s_ReturnChar s) (s_AuthSecondary s) (s_DefaultDesiredPriv s) (s_PreferredVersion s) (s_FailedWhen s) (s_OpenArgs s) (s_ExtraArgs s) (s_ExtraCiphers s) (s_ExtraKexs s) (s_PrivilegeLevels s)
  | FTermWidth => mkSettings (s_Logger s) (s_OnOpen s) (s_OnClose s) (s_Port s) (s_TimeoutSocket s) (s_ReadSize s) (s_TermHeight s) v (s_UserImpl s) (s_TimeoutOps s) (s_ReadDelay s) (s_PromptSearchDepth s) (s_ChannelLog s) (s_NetOnOpen s) (s_NetOnClose s) (s_StrictKey s) (s_NetconfConnection s) (s_AuthBypass s) (s_ForceSelfClosingTags s) (s_ExcludeHeader s) (s_TransportType s) (s_User s) (s_Password s) (s_PrivateKeyPath s) (s_PrivateKeyPassPhrase s) (s_ConfigFile s) (s_KnownHostsFile s) (s_OpenBin s) (s_FilePath s) (s_UsernamePattern s) (s_PasswordPattern s) (s_PassphrasePattern s) (s_PromptPattern s) (s_ReturnChar s) (s_AuthSecondary s) (s_DefaultDesiredPriv s) (s_PreferredVersion s) (s_FailedWhen s) (s_OpenArgs s) (s_ExtraArgs s) (s_ExtraCiphers s) (s_ExtraKexs s) (s_PrivilegeLevels s)
  | FUserImpl => mkSettings (s_Logger s) (s_OnOpen s) (s_OnClose s) (s_Port s) (s_TimeoutSocket s) (s_ReadSize s) (s_TermHeight s) (s_TermWidth s) v (s_TimeoutOps s) (s_ReadDelay s) (s_PromptSearchDepth s) (s_ChannelLog s) (s_NetOnOpen s) (s_NetOnClose s) (s_StrictKey s) (s_NetconfConnection s) (s_AuthBypass s) (s_ForceSelfClosingTags s) (s_ExcludeHeader s) (s_TransportType s) (s_User s) (s_Password s) (s_PrivateKeyPath s) (s_PrivateKeyPassPhrase s) (s_ConfigFile s) (s_KnownHostsFile s) (s_OpenBin s) (s_FilePath s) (s_UsernamePattern s) (s_PasswordPattern s) (s_PassphrasePattern s) (s_PromptPattern s) (s_ReturnChar s) (s_AuthSecondary s) (s_DefaultDesiredPriv s) (s_PreferredVersion s) (s_FailedWhen s) (s_OpenArgs s) (s_ExtraArgs s) (s_ExtraCiphers s) (s_ExtraKexs s) (s_PrivilegeLevels s)
  | FTimeoutOps => mkSettings (s_Logger s) (s_OnOpen s) (s_OnClose s) (s_Port s) (s_TimeoutSocket s) (s_ReadSize s) (s_TermHeight s) (s_TermWidth s) (s_UserImpl s) v (s_ReadDelay s) (s_PromptSearchDepth s) (s_ChannelLog s) (s_NetOnOpen s) (s_NetOnClose s) (s_StrictKey s) (s_NetconfConnection s) (s_AuthBypass s) (s_ForceSelfClosingTags s) (s_ExcludeHeader s) (s_TransportType s) (s_User s) (s_Password s) (s_PrivateKeyPath s) (s_PrivateKeyPassPhrase s) (s_ConfigFile s) (s_KnownHostsFile s) (s_OpenBin s) (s_FilePath s) (s_UsernamePattern s) (s_PasswordPattern s) (s_PassphrasePattern s) (s_PromptPattern s) (s_ReturnChar s) (s_AuthSecondary s) (s_DefaultDesiredPriv s) (s_PreferredVersion s) (s_FailedWhen s) (s_OpenArgs s) (s_ExtraArgs s) (s_ExtraCiphers s) (s_ExtraKexs s) (s_PrivilegeLevels s)
  | FReadDelay => mkSettings (s_Logger s) (s_OnOpen s) (s_OnClose s) (s_Port s) (s_TimeoutSocket s) (s_ReadSize s) (s_TermHeight s) (s_TermWidth s) (s_UserImpl s) (s_TimeoutOps s) v (s_PromptSearchDepth s) (s_ChannelLog s) (s_NetOnOpen s) (s_NetOnClose s) (s_StrictKey s) (s_NetconfConnection s) (s_AuthBypass s) (s_ForceSelfClosingTags s) (s_ExcludeHeader s) (s_TransportType s) (s_User s) (s_Password s) (s_PrivateKeyPath s) (s_PrivateKeyPassPhrase s) (s_ConfigFile s) (s_KnownHostsFile s) (s_OpenBin s) (s_FilePath s) (s_UsernamePattern s) (s_PasswordPattern s) (s_PassphrasePattern s) (s_PromptPattern s) (s_ReturnChar s) (s_AuthSecondary s) (s_DefaultDesiredPriv s) (s_PreferredVersion s) (s_FailedWhen s) (s_OpenArgs s) (s_ExtraArgs s) (s_ExtraCiphers s) (s_ExtraKexs s) (s_PrivilegeLevels s)
  | FPromptSearchDepth => mkSettings (s_Logger s) (s_OnOpen s) (s_OnClose s) (s_Port s) (s_TimeoutSocket s) (s_ReadSize s) (s_TermHeight s) (s_TermWidth s) (s_UserImpl s) (s_TimeoutOps s) (s_ReadDelay s) v (s_ChannelLog s) (s_NetOnOpen s) (s_NetOnClose s) (s_StrictKey s) (s_NetconfConnection s) (s_AuthBypass s) (s_ForceSelfClosingTags s) (s_ExcludeHeader s) (s_TransportType s) (s_User s) (s_Password s) (s_PrivateKeyPath s) (s_PrivateKeyPassPhrase s) (s_ConfigFile s) (s_KnownHostsFile s) (s_OpenBin s) (s_FilePath s) (s_UsernamePattern s) (s_PasswordPattern s) (s_PassphrasePattern s) (s_PromptPattern s) (s_ReturnChar s) (s_AuthSecondary s) (s_DefaultDesiredPriv s) (s_PreferredVersion s) (s_FailedWhen s) (s_OpenArgs s) (s_ExtraArgs s) (s_ExtraCiphers s) (s_ExtraKexs s) (s_PrivilegeLevels s)
  | FChannelLog => mkSettings (s_Logger s) (s_OnOpen s) (s_OnClose s) (s_Port s) (s_TimeoutSocket s) (s_ReadSize s) (s_TermHeight s) (s_TermWidth s) (s_UserImpl s) (s_TimeoutOps s) (s_ReadDelay s) (s_PromptSearchDepth s) v (s_NetOnOpen s) (s_NetOnClose s) (s_StrictKey s) (s_NetconfConnection s) (s_AuthBypass s) (s_ForceSelfClosingTags s) (s_ExcludeHeader s) (s_TransportType s) (s_User s) (s_Password s) (s_PrivateKeyPath s) (s_PrivateKeyPassPhrase s) (s_ConfigFile s) (s_KnownHostsFile s) (s_OpenBin s) (s_FilePath s) (s_UsernamePattern s) (s_PasswordPattern s) (s_PassphrasePattern s) (s_PromptPattern s) (s_ReturnChar s) (s_AuthSecondary s) (s_DefaultDesiredPriv s) (s_PreferredVersion s) (s_FailedWhen s) (s_OpenArgs s) (s_ExtraArgs s) (s_ExtraCiphers s) (s_ExtraKexs s) (s_PrivilegeLevels s)
  | FNetOnOpen => mkSettings (s_Logger s) (s_OnOpen s) (s_OnClose s) (s_Port s) (s_TimeoutSocket s) (s_ReadSize s) (s_TermHeight s) (s_TermWidth s) (s_UserImpl s) (s_TimeoutOps s) (s_ReadDelay s) (s_PromptSearchDepth s) (s_ChannelLog s) v (s_NetOnClose s) (s_StrictKey s) (s_NetconfConnection s) (s_AuthBypass s) (s_ForceSelfClosingTags s) (s_ExcludeHeader s) (s_TransportType s) (s_User s) (s_Password s) (s_PrivateKeyPath s) (s_PrivateKeyPassPhrase s) (s_ConfigFile s) (s_KnownHostsFile s) (s_OpenBin s) (s_FilePath s) (s_UsernamePattern s) (s_PasswordPattern s) (s_PassphrasePattern s) (s_PromptPattern s) (s_ReturnChar s) (s_AuthSecondary s) (s_DefaultDesiredPriv s) (s_PreferredVersion s) (s_FailedWhen s) (s_OpenArgs s) (s_ExtraArgs s) (s_ExtraCiphers s) (s_ExtraKexs s) (s_PrivilegeLevels s)
  | FNetOnClose => mkSettings (s_Logger s) (s_OnOpen s) (s_OnClose s) (s_Port s) (s_TimeoutSocket s) (s_ReadSize s) (s_TermHeight s) (s_TermWidth s) (s_UserImpl s) (s_TimeoutOps s) (s_ReadDelay s) (s_PromptSearchDepth s) (s_ChannelLog s) (s_NetOnOpen s) v (s_StrictKey s) (s_NetconfConnection s) (s_AuthBypass s) (s_ForceSelfClosingTags s) (s_ExcludeHeader s) (s_TransportType s) (s_User s) (s_Password s) (s_PrivateKeyPath s) (s_PrivateKeyPassPhrase s) (s_ConfigFile s) (s_KnownHostsFile s) (s_OpenBin s) (s_FilePath s) (s_UsernamePattern s) (s_PasswordPattern s) (s_PassphrasePattern s) (s_PromptPattern s) (s_ReturnChar s) (s_AuthSecondary s) (s_DefaultDesiredPriv s) (s_PreferredVersion s) (s_FailedWhen s) (s_OpenArgs s) (s_ExtraArgs s) (s_ExtraCiphers s) (s_ExtraKexs s) (s_PrivilegeLevels s)
  end.

Definition getB (f : bfield) (s : settings) : bool :=
  match f with
  | FStrictKey => s_StrictKey s
  | FNetconfConnection => s_NetconfConnection s
  | FAuthBypass => s_AuthBypass s
  | FForceSelfClosingTags => s_ForceSelfClosingTags s
  | FExcludeHeader => s_ExcludeHeader s
  end.
Definition setB (f : bfield) (v : bool) (s : settings) : settings :=
  match f with
  | FStrictKey => mkSettings (s_Logger s) (s_OnOpen s) (s_OnClose s) (s_Port s) (s_TimeoutSocket s) (s_ReadSize s) (s_TermHeight s) (s_TermWidth s) (s_UserImpl s) (s_TimeoutOps s) (s_ReadDelay s) (s_PromptSearchDepth s) (s_ChannelLog s) (s_NetOnOpen s) (s_NetOnClose s) v (s_NetconfConnection s) (s_AuthBypass s) (s_ForceSelfClosingTags s) (s_ExcludeHeader s) (s_TransportType s) (s_User s) (s_Password s) (s_PrivateKeyPath s) (s_PrivateKeyPassPhrase s) (s_ConfigFile s) (s_KnownHostsFile s) (s_OpenBin s) (s_FilePath s) (s_UsernamePattern s) (s_PasswordPattern s) (s_PassphrasePattern s) (s_PromptPattern s) (s_ReturnChar s) (s_AuthSecondary s) (s_DefaultDesiredPriv s) (s_PreferredVersion s) (s_FailedWhen s) (s_OpenArgs s) (s_ExtraArgs s) (s_ExtraCiphers s) (s_ExtraKexs s) (s_PrivilegeLevels s)
  | FNetconfConnection => mkSettings (s_Logger s) (s_OnOpen s) (s_OnClose s) (s_Port s) (s_TimeoutSocket s) (s_ReadSize s) (s_TermHeight s) (s_TermWidth s) (s_UserImpl s) (s_TimeoutOps s) (s_ReadDelay s) (s_PromptSearchDepth s) (s_ChannelLog s) (s_NetOnOpen s) (s_NetOnClose s) (s_StrictKey s) v (s_AuthBypass s) (s_ForceSelfClosingTags s) (s_ExcludeHeader s) (s_TransportType s) (s_User s) (s_Password s) (s_PrivateKeyPath s) (s_PrivateKeyPassPhrase s) (s_ConfigFile s) (s_KnownHostsFile s) (s_OpenBin s) (s_FilePath s) (s_UsernamePattern s) (s_PasswordPattern s) (s_PassphrasePattern s) (s_PromptPattern s) (s_ReturnChar s) (s_AuthSecondary s) (s_DefaultDesiredPriv s) (s_PreferredVersion s) (s_FailedWhen s) (s_OpenArgs s) (s_ExtraArgs s) (s_ExtraCiphers s) (s_ExtraKexs s) (s_PrivilegeLevels s)
  | FAuthBypass => mkSettings (s_Logger s) (s_OnOpen s) (s_OnClose s) (s_Port s) (s_TimeoutSocket s) (s_ReadSize s) (s_TermHeight s) (s_TermWidth s) (s_UserImpl s) (s_TimeoutOps s) (s_ReadDelay s) (s_PromptSearchDepth s) (s_ChannelLog s) (s_NetOnOpen s) (s_NetOnClose s) (s_StrictKey s) (s_NetconfConnection s) v (s_ForceSelfClosingTags s) (s_ExcludeHeader s) (s_TransportType s) (s_User s) (s_Password s) (s_PrivateKeyPath s) (s_PrivateKeyPassPhrase s) (s_ConfigFile s) (s_KnownHostsFile s) (s_OpenBin s) (s_FilePath s) (s_UsernamePattern s) (s_PasswordPattern s) (s_PassphrasePattern s) (s_PromptPattern s) (s_ReturnChar s) (s_AuthSecondary s) (s_DefaultDesiredPriv s) (s_PreferredVersion s) (s_FailedWhen s) (s_OpenArgs s) (s_ExtraArgs s) (s_ExtraCiphers s) (s_ExtraKexs s) (s_PrivilegeLevels s)
  | FForceSelfClosingTags => mkSettings (s_Logger s) (s_OnOpen s) (s_OnClose s) (s_Port s) (s_TimeoutSocket s) (s_ReadSize s) (s_TermHeight s) (s_TermWidth s) (s_UserImpl s) (s_TimeoutOps s) (s_ReadDelay s) (s_PromptSearchDepth s) (s_ChannelLog s) (s_NetOnOpen s) (s_NetOnClose s) (s_StrictKey s) (s_NetconfConnection s) (s_AuthBypass s) v (s_ExcludeHeader s) (s_TransportType s) (s_User s) (s_Password s) (s_PrivateKeyPath s) (s_PrivateKeyPassPhrase s) (s_ConfigFile s) (s_KnownHostsFile s) (s_OpenBin s) (s_FilePath s) (s_UsernamePattern s) (s_PasswordPattern s) (s_PassphrasePattern s) (s_PromptPattern s) (s_ReturnChar s) (s_AuthSecondary s) (s_DefaultDesiredPriv s) (s_PreferredVersion s) (s_FailedWhen s) (s_OpenArgs s) (s_ExtraArgs s) (s_ExtraCiphers s) (s_ExtraKexs s) (s_PrivilegeLevels s)
  | FExcludeHeader => mkSettings (s_Logger s) (s_OnOpen s) (s_OnClose s) (s_Port s) (s_TimeoutSocket s) (s_ReadSize s) (s_TermHeight s) (s_TermWidth s) (s_UserImpl s) (s_TimeoutOps s) (s_ReadDelay s) (s_PromptSearchDepth s) (s_ChannelLog s) (s_NetOnOpen s) (s_NetOnClose s) (s_StrictKey s) (s_NetconfConnection s) (s_AuthBypass s) (s_ForceSelfClosingTags s) v (s_TransportType s) (s_User s) (s_Password s) (s_PrivateKeyPath s) (s_PrivateKeyPassPhrase s) (s_ConfigFile s) (s_KnownHostsFile s) (s_OpenBin s) (s_FilePath s) (s_UsernamePattern s) (s_PasswordPattern s) (s_PassphrasePattern s) (s_PromptPattern s) (s_ReturnChar s) (s_AuthSecondary s) (s_DefaultDesiredPriv s) (s_PreferredVersion s) (s_FailedWhen s) (s_OpenArgs s) (s_ExtraArgs s) (s_ExtraCiphers s) (s_ExtraKexs s) (s_PrivilegeLevels s)
  end.

Definition getS (f : sfield) (s : settings) : bytes :=
  match f with
  | FTransportType => s_TransportType s
  | FUser => s_User s
  | FPassword => s_Password s
  | FPrivateKeyPath => s_PrivateKeyPath s
  | FPrivateKeyPassPhrase => s_PrivateKeyPassPhrase s
  | FConfigFile => s_ConfigFile s
  | FKnownHostsFile => s_KnownHostsFile s
  | FOpenBin => s_OpenBin s
  | FFilePath => s_FilePath s
  | FUsernamePattern => s_UsernamePattern s
  | FPasswordPattern => s_PasswordPattern s
  | FPassphrasePattern => s_PassphrasePattern s
  | FPromptPattern => s_PromptPattern s
  | FReturnChar => s_ReturnChar s
  | FAuthSecondary => s_AuthSecondary s
  | FDefaultDesiredPriv => s_DefaultDesiredPriv s
  | FPreferredVersion => s_PreferredVersion s
  end.
Definition setS (f : sfield) (v : bytes) (s : settings) : settings :=
  match f with
  | FTransportType => mkSettings (s_Logger s) (s_OnOpen s) (s_OnClose s) (s_Port s) (s_TimeoutSocket s) (s_ReadSize s) (s_TermHeight s) (s_TermWidth s) (s_UserImpl s) (s_TimeoutOps s) (s_ReadDelay s) (s_PromptSearchDepth s) (s_ChannelLog s) (s_NetOnOpen s) (s_NetOnClose s) (s_StrictKey s) (s_NetconfConnection s) (s_AuthBypass s) (s_ForceSelfClosingTags s) (s_ExcludeHeader s) v (s_User s) (s_Password s) (s_PrivateKeyPath s) (s_PrivateKeyPassPhrase s) (s_ConfigFile s) (s_KnownHostsFile s) (s_OpenBin s) (s_FilePath s) (s_UsernamePattern s) (s_PasswordPattern s) (s_PassphrasePattern s) (s_PromptPattern s) (s_ReturnChar s) (s_AuthSecondary s) (s_DefaultDesiredPriv s) (s_PreferredVersion s) (s_FailedWhen s) (s_OpenArgs s) (s_ExtraArgs s) (s_ExtraCiphers s) (s_ExtraKexs s) (s_PrivilegeLevels s)
  | FUser => mkSettings (s_Logger s) (s_OnOpen s) (s_OnClose s) (s_Port s) (s_TimeoutSocket s) (s_ReadSize s) (s_TermHeight s) (s_TermWidth s) (s_UserImpl s) (s_TimeoutOps s) (s_ReadDelay s) (s_PromptSearchDepth s) (s_ChannelLog s) (s_NetOnOpen s) (s_NetOnClose s) (s_StrictKey s) (s_NetconfConnection s) (s_AuthBypass s) (s_ForceSelfClosingTags s) (s_ExcludeHeader s) (s_TransportType s) v (s_Password s) (s_PrivateKeyPath s) (s_PrivateKeyPassPhrase s) (s_ConfigFile s) (s_KnownHostsFile s) (s_OpenBin s) (s_FilePath s) (s_UsernamePattern s) (s_PasswordPattern s) (s_PassphrasePattern s) (s_PromptPattern s) (s_ReturnChar s) (s_AuthSecondary s) (s_DefaultDesiredPriv s) (s_PreferredVersion s) (s_FailedWhen s) (s_OpenArgs s) (s_ExtraArgs s) (s_ExtraCiphers s) (s_ExtraKexs s) (s_PrivilegeLevels s)
  | FPassword => mkSettings (s_Logger s) (s_OnOpen s) (s_OnClose s) (s_Port s) (s_TimeoutSocket s) (s_ReadSize s) (s_TermHeight s) (s_TermWidth s) (s_UserImpl s) (s_TimeoutOps s) (s_ReadDelay s) (s_PromptSearchDepth s) (s_ChannelLog s) (s_NetOnOpen s) (s_NetOnClose s) (s_StrictKey s) (s_NetconfConnection s) (s_AuthBypass s) (s_ForceSelfClosingTags s) (s_ExcludeHeader s) (s_TransportType s) (s_User s) v (s_PrivateKeyPath s) (s_PrivateKeyPassPhrase s) (s_ConfigFile s) (s_KnownHostsFile s) (s_OpenBin s) (s_FilePath s) (s_UsernamePattern s) (s_PasswordPattern s) (s_PassphrasePattern s) (s_PromptPattern s) (s_ReturnChar s) (s_AuthSecondary s) (s_DefaultDesiredPriv s) (s_PreferredVersion s) (s_FailedWhen s) (s_OpenArgs s) (s_ExtraArgs s) (s_ExtraCiphers s) (s_ExtraKexs s) (s_PrivilegeLevels s)
  | FPrivateKeyPath => mkSettings (s_Logger s) (s_OnOpen s) (s_OnClose s) (s_Port s) (s_TimeoutSocket s) (s_ReadSize s) (s_TermHeight s) (s_TermWidth s) (s_UserImpl s) (s_TimeoutOps s) (s_ReadDelay s) (s_PromptSearchDepth s) (s_ChannelLog s) (s_NetOnOpen s) (s_NetOnClose s) (s_StrictKey s) (s_NetconfConnection s) (s_AuthBypass s) (s_ForceSelfClosingTags s) (s_ExcludeHeader s) (s_TransportType s) (s_User s) (s_Password s) v (s_PrivateKeyPassPhrase s) (s_ConfigFile s) (s_KnownHostsFile s) (s_OpenBin s) (s_FilePath s) (s_UsernamePattern s) (s_PasswordPattern s) (s_PassphrasePattern s) (s_PromptPattern s) (s_ReturnChar s) (s_AuthSecondary s) (s_DefaultDesiredPriv s) (s_PreferredVersion s) (s_FailedWhen s) (s_OpenArgs s) (s_ExtraArgs s) (s_ExtraCiphers s) (s_ExtraKexs s) (s_PrivilegeLevels s)
  | FPrivateKeyPassPhrase => mkSettings (s_Logger s) (s_OnOpen s) (s_OnClose s) (s_Port s) (s_TimeoutSocket s) (s_ReadSize s) (s_TermHeight s) (s_TermWidth s) (s_UserImpl s) (s_TimeoutOps s) (s_ReadDelay s) (s_PromptSearchDepth s) (s_ChannelLog s) (s_NetOnOpen s) (s_NetOnClose s) (s_StrictKey s) (s_NetconfConnection s) (s_AuthBypass s) (s_ForceSelfClosingTags s) (s_ExcludeHeader s) (s_TransportType s) (s_User s) (s_Password s) (s_PrivateKeyPath s) v (s_ConfigFile s) (s_KnownHostsFile s) (s_OpenBin s) (s_FilePath s) (s_UsernamePattern s) (s_PasswordPattern s) (s_PassphrasePattern s) (s_PromptPattern s) (s_ReturnChar s) (s_AuthSecondary s) (s_DefaultDesiredPriv s) (s_PreferredVersion s) (s_FailedWhen s) (s_OpenArgs s) (s_ExtraArgs s) (s_ExtraCiphers s) (s_ExtraKexs s) (s_PrivilegeLevels s)
  | FConfigFile => mkSettings (s_Logger s) (s_OnOpen s) (s_OnClose s) (s_Port s) (s_TimeoutSocket s) (s_ReadSize s) (s_TermHeight s) (s_TermWidth s) (s_UserImpl s) (s_TimeoutOps s) (s_ReadDelay s) (s_PromptSearchDepth s) (s_ChannelLog s) (s_NetOnOpen s) (s_NetOnClose s) (s_StrictKey s) (s_NetconfConnection s) (s_AuthBypass s) (s_ForceSelfClosingTags s) (s_ExcludeHeader s) (s_TransportType s) (s_User s) (s_Password s) (s_PrivateKeyPath s) (s_PrivateKeyPassPhrase s) v (s_KnownHostsFile s) (s_OpenBin s) (s_FilePath s) (s_UsernamePattern s) (s_PasswordPattern s) (s_PassphrasePattern s) (s_PromptPattern s) (s_ReturnChar s) (s_AuthSecondary s) (s_DefaultDesiredPriv s) (s_PreferredVersion s) (s_FailedWhen s) (s_OpenArgs s) (s_ExtraArgs s) (s_ExtraCiphers s) (s_ExtraKexs s) (s_PrivilegeLevels s)
  | FKnownHostsFile => mkSettings (s_Logger s) (s_OnOpen s) (s_OnClose s) (s_Port s) (s_TimeoutSocket s) (s_ReadSize s) (s_TermHeight s) (s_TermWidth s) (s_UserImpl s) (s_TimeoutOps s) (s_ReadDelay s) (s_PromptSearchDepth s) (s_ChannelLog s) (s_NetOnOpen s) (s_NetOnClose s) (s_StrictKey s) (s_NetconfConnection s) (s_AuthBypass s) (s_ForceSelfClosingTags s) (s_ExcludeHeader s) (s_TransportType s) (s_User s) (s_Password s) (s_PrivateKeyPath s) (s_PrivateKeyPassPhrase s) (s_ConfigFile s) v (s_OpenBin s) (s_FilePath s) (s_UsernamePattern s) (s_PasswordPattern s) (s_PassphrasePattern s) (s_PromptPattern s) (s_ReturnChar s) (s_AuthSecondary s) (s_DefaultDesiredPriv s) (s_PreferredVersion s) (s_FailedWhen s) (s_OpenArgs s) (s_ExtraArgs s) (s_ExtraCiphers s) (s_ExtraKexs s) (s_PrivilegeLevels s)
  | FOpenBin => mkSettings (s_Logger s) (s_OnOpen s) (s_OnClose s) (s_Port s) (s_TimeoutSocket s) (s_ReadSize s) (s_TermHeight s) (s_TermWidth s) (s_UserImpl s) (s_TimeoutOps s) (s_ReadDelay s) (s_PromptSearchDepth s) (s_ChannelLog s) (s_NetOnOpen s) (s_NetOnClose s) (s_StrictKey s) (s_NetconfConnection s) (s_AuthBypass s) (s_ForceSelfClosingTags s) (s_ExcludeHeader s) (s_TransportType s) (s_User s) (s_Password s) (s_PrivateKeyPath s) (s_PrivateKeyPassPhrase s) (s_ConfigFile s) (s_KnownHostsFile s) v (s_FilePath s) (s_UsernamePattern s) (s_PasswordPattern s) (s_PassphrasePattern s) (s_PromptPattern s) (s_ReturnChar s) (s_AuthSecondary s) (s_DefaultDesiredPriv s) (s_PreferredVersion s) (s_FailedWhen s) (s_OpenArgs s) (s_ExtraArgs s) (s_ExtraCiphers s) (s_ExtraKexs s) (s_PrivilegeLevels s)
  | FFilePath => mkSettings (s_Logger s) (s_OnOpen s) (s_OnClose s) (s_Port s) (s_TimeoutSocket s) (s_ReadSize s) (s_TermHeight s) (s_TermWidth s) (s_UserImpl s) (s_TimeoutOps s) (s_ReadDelay s) (s_PromptSearchDepth s) (s_ChannelLog s) (s_NetOnOpen s) (s_NetOnClose s) (s_StrictKey s) (s_NetconfConnection s) (s_AuthBypass s) (s_ForceSelfClosingTags s) (s_ExcludeHeader s) (s_TransportType s) (s_User s) (s_Password s) (s_PrivateKeyPath s) (s_PrivateKeyPassPhrase s) (s_ConfigFile s) (s_KnownHostsFile s) (s_OpenBin s) v (s_UsernamePattern s) (s_PasswordPattern s) (s_PassphrasePattern s) (s_PromptPattern s) (s_ReturnChar s) (s_AuthSecondary s) (s_DefaultDesiredPriv s) (s_PreferredVersion s) (s_FailedWhen s) (s_OpenArgs s) (s_ExtraArgs s) (s_ExtraCiphers s) (s_ExtraKexs s) (s_PrivilegeLevels s)
  | FUsernamePattern => mkSettings (s_Logger s) (s_OnOpen s) (s_OnClose s) (s_Port s) (s_TimeoutSocket s) (s_ReadSize s) (s_TermHeight s) (s_TermWidth s) (s_UserImpl s) (s_TimeoutOps s) (s_ReadDelay s) (s_PromptSearchDepth s) (s_ChannelLog s) (s_NetOnOpen s) (s_NetOnClose s) (s_StrictKey s) (s_NetconfConnection s) (s_AuthBypass s) (s_ForceSelfClosingTags s) (s_ExcludeHeader s) (s_TransportType s) (s_User s) (s_Password s) (s_PrivateKeyPath s) (s_PrivateKeyPassPhrase s) (s_ConfigFile s) (s_KnownHostsFile s) (s_OpenBin s) (s_FilePath s) v (s_PasswordPattern s) (s_PassphrasePattern s) (s_PromptPattern s) (s_ReturnChar s) (s_AuthSecondary s) (s_DefaultDesiredPriv s) (s_PreferredVersion s) (s_FailedWhen s) (s_OpenArgs s) (s_ExtraArgs s) (s_ExtraCiphers s) (s_ExtraKexs s) (s_PrivilegeLevels s)
  | FPasswordPattern => mkSettings (s_Logger s) (s_OnOpen s) (s_OnClose s) (s_Port s) (s_TimeoutSocket s) (s_ReadSize s) (s_TermHeight s) (s_TermWidth s) (s_UserImpl s) (s_TimeoutOps s) (s_ReadDelay s) (s_PromptSearchDepth s) (s_ChannelLog s) (s_NetOnOpen s) (s_NetOnClose s) (s_StrictKey s) (s_NetconfConnection s) (s_AuthBypass s) (s_ForceSelfClosingTags s) (s_ExcludeHeader s) (s_TransportType s) (s_User s) (s_Password s) (s_PrivateKeyPath s) (s_PrivateKeyPassPhrase s) (s_ConfigFile s) (s_KnownHostsFile s) (s_OpenBin s) (s_FilePath s) (s_UsernamePattern s) v (s_PassphrasePattern s) (s_PromptPattern s) (s_ReturnChar s) (s_AuthSecondary s) (s_DefaultDesiredPriv s) (s_PreferredVersion s) (s_FailedWhen s) (s_OpenArgs s) (s_ExtraArgs s) (s_ExtraCiphers s) (s_ExtraKexs s) (s_PrivilegeLevels s)
  | FPassphrasePattern => mkSettings (s_Logger s) (s_OnOpen s) (s_OnClose s) (s_Port s) (s_TimeoutSocket s) (s_ReadSize s) (s_TermHeight s) (s_TermWidth s) (s_UserImpl s) (s_TimeoutOps s) (s_ReadDelay s) (s_PromptSearchDepth s) (s_ChannelLog s) (s_NetOnOpen s) (s_NetOnClose s) (s_StrictKey s) (s_NetconfConnection s) (s_AuthBypass s) (s_ForceSelfClosingTags s) (s_ExcludeHeader s) (s_TransportType s) (s_User s) (s_Password s) (s_PrivateKeyPath s) (s_PrivateKeyPassPhrase s) (s_ConfigFile s) (s_KnownHostsFile s) (s_OpenBin s) (s_FilePath s) (s_UsernamePattern s) (s_PasswordPattern s) v (s_PromptPattern s) (s_ReturnChar s) (s_AuthSecondary s) (s_DefaultDesiredPriv s) (s_PreferredVersion s) (s_FailedWhen s) (s_OpenArgs s) (s_ExtraArgs s) (s_ExtraCiphers s) (s_ExtraKexs s) (s_PrivilegeLevels s)
  | FPromptPattern => mkSettings (s_Logger s) (s_OnOpen s) (s_OnClose s) (s_Port s) (s_TimeoutSocket s) (s_ReadSize s) (s_TermHeight s) (s_TermWidth s) (s_UserImpl s) (s_TimeoutOps s) (s_ReadDelay s) (s_PromptSearchDepth s) (s_ChannelLog s) (s_NetOnOpen s) (s_NetOnClose s) (s_StrictKey s) (s_NetconfConnection s) (s_AuthBypass s) (s_ForceSelfClosingTags s) (s_ExcludeHeader s) (s_TransportType s) (s_User s) (s_Password s) (s_PrivateKeyPath s) (s_PrivateKeyPassPhrase s) (s_ConfigFile s) (s_KnownHostsFile s) (s_OpenBin s) (s_FilePath s) (s_UsernamePattern s) (s_PasswordPattern s) (s_PassphrasePattern s) v (s_ReturnChar s) (s_AuthSecondary s) (s_DefaultDesiredPriv s) (s_PreferredVersion s) (s_FailedWhen s) (s_OpenArgs s) (s_ExtraArgs s) (s_ExtraCiphers s) (s_ExtraKexs s) (s_PrivilegeLevels s)
  | FReturnChar => mkSettings (s_Logger s) (s_OnOpen s) (s_OnClose s) (s_Port s) (s_TimeoutSocket s) (s_ReadSize s) (s_TermHeight s) (s_TermWidth s) (s_UserImpl s) (s_TimeoutOps s) (s_ReadDelay s) (s_PromptSearchDepth s) (s_ChannelLog s) (s_NetOnOpen s) (s_NetOnClose s) (s_StrictKey s) (s_NetconfConnection s) (s_AuthBypass s) (s_ForceSelfClosingTags s) (s_ExcludeHeader s) (s_TransportType s) (s_User s) (s_Password s) (s_PrivateKeyPath s) (s_PrivateKeyPassPhrase s) (s_ConfigFile s) (s_KnownHostsFile s) (s_OpenBin s) (s_FilePath s) (s_UsernamePattern s) (s_PasswordPattern s) (s_PassphrasePattern s) (s_PromptPattern s) v (s_AuthSecondary s) (s_DefaultDesiredPriv s) (s_PreferredVersion s) (s_FailedWhen s) (s_OpenArgs s) (s_ExtraArgs s) (s_ExtraCiphers s) (s_ExtraKexs s) (s_PrivilegeLevels s)
  | FAuthSecondary => mkSettings (s_Logger s) (s_OnOpen s) (s_OnClose s) (s_Port s) (s_TimeoutSocket s) (s_ReadSize s) (s_TermHeight s) (s_TermWidth s) (s_UserImpl s) (s_TimeoutOps s) (s_ReadDelay s) (s_PromptSearchDepth s) (s_ChannelLog s) (s_NetOnOpen s) (s_NetOnClose s) (s_StrictKey s) (s_NetconfConnection s) (s_AuthBypass s) (s_ForceSelfClosingTags s) (s_ExcludeHeader s) (s_TransportType s) (s_User s) (s_Password s) (s_PrivateKeyPath s) (s_PrivateKeyPassPhrase s) (s_ConfigFile s) (s_KnownHostsFile s) (s_OpenBin s) (s_FilePath s) (s_UsernamePattern s) (s_PasswordPattern s) (s_PassphrasePattern s) (s_PromptPattern s) (s_ReturnChar s) v (s_DefaultDesiredPriv s) (s_PreferredVersion s) (s_FailedWhen s) (s_OpenArgs s) (s_ExtraArgs s) (s_ExtraCiphers s) (s_ExtraKexs s) (s_PrivilegeLevels s)
  | FDefaultDesiredPriv => mkSettings (s_Logger s) (s_OnOpen s) (s_OnClose s) (s_Port s) (s_TimeoutSocket s) (s_ReadSize s) (s_TermHeight s) (s_TermWidth s) (s_UserImpl s) (s_TimeoutOps s) (s_ReadDelay s) (s_PromptSearchDepth s) (s_ChannelLog s) (s_NetOnOpen s) (s_NetOnClose s) (s_StrictKey s) (s_NetconfConnection s) (s_AuthBypass s) (s_ForceSelfClosingTags s) (s_ExcludeHeader s) (s_TransportType s) (s_User s) (s_Password s) (s_PrivateKeyPath s) (s_PrivateKeyPassPhrase s) (s_ConfigFile s) (s_KnownHostsFile s) (s_OpenBin s) (s_FilePath s) (s_UsernamePattern s) (s_PasswordPattern s) (s_PassphrasePattern s) (s_PromptPattern s) (s_ReturnChar s) (s_AuthSecondary s) v (s_PreferredVersion s) (s_FailedWhen s) (s_OpenArgs s) (s_ExtraArgs s) (s_ExtraCiphers s) (s_ExtraKexs s) (s_PrivilegeLevels s)
  | FPreferredVersion => mkSettings (s_Logger s) (s_OnOpen s) (s_OnClose s) (s_Port s) (s_TimeoutSocket s) (s_ReadSize s) (s_TermHeight s) (s_TermWidth s) (s_UserImpl s) (s_TimeoutOps s) (s_ReadDelay s) (s_PromptSearchDepth s) (s_ChannelLog s) (s_NetOnOpen s) (s_NetOnClose s) (s_StrictKey s) (s_NetconfConnection s) (s_AuthBypass s) (s_ForceSelfClosingTags s) (s_ExcludeHeader s) (s_TransportType s) (s_User s) (s_Password s) (s_PrivateKeyPath s) (s_PrivateKeyPassPhrase s) (s_ConfigFile s) (s_KnownHostsFile s) (s_OpenBin s) (s_FilePath s) (s_UsernamePattern s) (s_PasswordPattern s) (s_PassphrasePattern s) (s_PromptPattern s) (s_ReturnChar s) (s_AuthSecondary s) (s_DefaultDesiredPriv s) v (s_FailedWhen s) (s_OpenArgs s) (s_ExtraArgs s) (s_ExtraCiphers s) (s_ExtraKexs s) (s_PrivilegeLevels s)
  end.

Definition getL (f : lfield) (s : settings) : list bytes :=
  match f with
  | FFailedWhen => s_FailedWhen s
  | FOpenArgs => s_OpenArgs s
  | FExtraArgs => s_ExtraArgs s
  | FExtraCiphers => s_ExtraCiphers s
  | FExtraKexs => s_ExtraKexs s
  | FPrivilegeLevels => s_PrivilegeLevels s
  end.
Definition setL (f : lfield) (v : list bytes) (s : settings) : settings :=
  match f with
  | FFailedWhen => mkSettings (s_Logger s) (s_OnOpen s) (s_OnClose s) (s_Port s) (s_TimeoutSocket s) (s_ReadSize s) (s_TermHeight s) (s_TermWidth s) (s_UserImpl s) (s_TimeoutOps s) (s_ReadDelay s) (s_PromptSearchDepth s) (s_ChannelLog s) (s_NetOnOpen s) (s_NetOnClose s) (s_StrictKey s) (s_NetconfConnection s) (s_AuthBypass s) (s_ForceSelfClosingTags s) (s_ExcludeHeader s) (s_TransportType s) (s_User s) (s_Password s) (s_PrivateKeyPath s) (s_PrivateKeyPassPhrase s) (s_ConfigFile s) (s_KnownHostsFile s) (s_OpenBin s) (s_FilePath s) (s_UsernamePattern s) (s_PasswordPattern s) (s_PassphrasePattern s) (s_PromptPattern s) (s_ReturnChar s) (s_AuthSecondary s) (s_DefaultDesiredPriv s) (s_PreferredVersion s) v (s_OpenArgs s) (s_ExtraArgs s) (s_ExtraCiphers s) (s_ExtraKexs s) (s_PrivilegeLevels s)
  | FOpenArgs => mkSettings (s_Logger s) (s_OnOpen s) (s_OnClose s) (s_Port s) (s_TimeoutSocket s) (s_ReadSize s) (s_TermHeight s) (s_TermWidth s) (s_UserImpl s) (s_TimeoutOps s) (s_ReadDelay s) (s_PromptSearchDepth s) (s_ChannelLog s) (s_NetOnOpen s) (s_NetOnClose s) (s_StrictKey s) (s_NetconfConnection s) (s_AuthBypass s) (s_ForceSelfClosingTags s) (s_ExcludeHeader s) (s_TransportType s) (s_User s) (s_Password s) (s_PrivateKeyPath s) (s_PrivateKeyPassPhrase s) (s_ConfigFile s) (s_KnownHostsFile s) (s_OpenBin s) (s_FilePath s) (s_UsernamePattern s) (s_PasswordPattern s) (s_PassphrasePattern s) (s_PromptPattern s) (s_ReturnChar s) (s_AuthSecondary s) (s_DefaultDesiredPriv s) (s_PreferredVersion s) (s_FailedWhen s) v (s_ExtraArgs s) (s_ExtraCiphers s) (s_ExtraKexs s) (s_PrivilegeLevels s)
  | FExtraArgs => mkSettings (s_Logger s) (s_OnOpen s) (s_OnClose s) (s_Port s) (s_TimeoutSocket s) (s_ReadSize s) (s_TermHeight s) (s_TermWidth s) (s_UserImpl s) (s_TimeoutOps s) (s_ReadDelay s) (s_PromptSearchDepth s) (s_ChannelLog s) (s_NetOnOpen s) (s_NetOnClose s) (s_StrictKey s) (s_NetconfConnection s) (s_AuthBypass s) (s_ForceSelfClosingTags s) (s_ExcludeHeader s) (s_TransportType s) (s_User s) (s_Password s) (s_PrivateKeyPath s) (s_PrivateKeyPassPhrase s) (s_ConfigFile s) (s_KnownHostsFile s) (s_OpenBin s) (s_FilePath s) (s_UsernamePattern s) (s_PasswordPattern s) (s_PassphrasePattern s) (s_PromptPattern s) (s_ReturnChar s) (s_AuthSecondary s) (s_DefaultDesiredPriv s) (s_PreferredVersion s) (s_FailedWhen s) (s_OpenArgs s) v (s_ExtraCiphers s) (s_ExtraKexs s) (s_PrivilegeLevels s)
  | FExtraCiphers => mkSettings (s_Logger s) (s_OnOpen s) (s_OnClose s) (s_Port s) (s_TimeoutSocket s) (s_ReadSize s) (s_TermHeight s) (s_TermWidth s) (s_UserImpl s) (s_TimeoutOps s) (s_ReadDelay s) (s_PromptSearchDepth s) (s_ChannelLog s) (s_NetOnOpen s) (s_NetOnClose s) (s_StrictKey s) (s_NetconfConnection s) (s_AuthBypass s) (s_ForceSelfClosingTags s) (s_ExcludeHeader s) (s_TransportType s) (s_User s) (s_Password s) (s_PrivateKeyPath s) (s_PrivateKeyPassPhrase s) (s_ConfigFile s) (s_KnownHostsFile s) (s_OpenBin s) (s_FilePath s) (s_UsernamePattern s) (s_PasswordPattern s) (s_PassphrasePattern s) (s_PromptPattern s) (s_ReturnChar s) (s_AuthSecondary s) (s_DefaultDesiredPriv s) (s_PreferredVersion s) (s_FailedWhen s) (s_OpenArgs s) (s_ExtraArgs s) v (s_ExtraKexs s) (s_PrivilegeLevels s)
  | FExtraKexs => mkSettings (s_Logger s) (s_OnOpen s) (s_OnClose s) (s_Port s) (s_TimeoutSocket s) (s_ReadSize s) (s_TermHeight s) (s_TermWidth s) (s_UserImpl s) (s_TimeoutOps s) (s_ReadDelay s) (s_PromptSearchDepth s) (s_ChannelLog s) (s_NetOnOpen s) (s_NetOnClose s) (s_StrictKey s) (s_NetconfConnection s) (s_AuthBypass s) (s_ForceSelfClosingTags s) (s_ExcludeHeader s) (s_TransportType s) (s_User s) (s_Password s) (s_PrivateKeyPath s) (s_PrivateKeyPassPhrase s) (s_ConfigFile s) (s_KnownHostsFile s) (s_OpenBin s) (s_FilePath s) (s_UsernamePattern s) (s_PasswordPattern s) (s_PassphrasePattern s) (s_PromptPattern s) (s_ReturnChar s) (s_AuthSecondary s) (s_DefaultDesiredPriv s) (s_PreferredVersion s) (s_FailedWhen s) (s_OpenArgs s) (s_ExtraArgs s) (s_ExtraCiphers s) v (s_PrivilegeLevels s)
  | FPrivilegeLevels => mkSettings (s_Logger s) (s_OnOpen s) (s_OnClose s) (s_Port s) (s_TimeoutSocket s) (s_ReadSize s) (s_TermHeight s) (s_TermWidth s) (s_UserImpl s) (s_TimeoutOps s) (s_ReadDelay s) (s_PromptSearchDepth s) (s_ChannelLog s) (s_NetOnOpen s) (s_NetOnClose s) (s_StrictKey s) (s_NetconfConnection s) (s_AuthBypass s) (s_ForceSelfClosingTags s) (s_ExcludeHeader s) (s_TransportType s) (s_User s) (s_Password s) (s_PrivateKeyPath s) (s_PrivateKeyPassPhrase s) (s_ConfigFile s) (s_KnownHostsFile s) (s_OpenBin s) (s_FilePath s) (s_UsernamePattern s) (s_PasswordPattern s) (s_PassphrasePattern s) (s_PromptPattern s) (s_ReturnChar s) (s_AuthSecondary s) (s_DefaultDesiredPriv s) (s_PreferredVersion s) (s_FailedWhen s) (s_OpenArgs s) (s_ExtraArgs s) (s_ExtraCiphers s) (s_ExtraKexs s) v
  end.

Definition zero_settings : settings :=
  mkSettings 0 0 0 0 0 0 0 0 0 0 0 0 0 0 0 false false false false false [] [] [] [] [] [] [] [] [] [] [] [] [] [] [] [] [] [] [] [] [] [] [].

(* a record is determined by its fields *)
Definition rebuild (s : settings) : settings :=
  mkSettings (getN FLogger s) (getN FOnOpen s) (getN FOnClose s) (getN FPort s) (getN FTimeoutSocket s) (getN FReadSize s) (getN FTermHeight s) (getN FTermWidth s) (getN FUserImpl s) (getN FTimeoutOps s) (getN FReadDelay s) (getN FPromptSearchDepth s) (getN FChannelLog s) (getN FNetOnOpen s) (getN FNetOnClose s) (getB FStrictKey s) (getB FNetconfConnection s) (getB FAuthBypass s) (getB FForceSelfClosingTags s) (getB FExcludeHeader s) (getS FTransportType s) (getS FUser s) (getS FPassword s) (getS FPrivateKeyPath s) (getS FPrivateKeyPassPhrase s) (getS FConfigFile s) (getS FKnownHostsFile s) (getS FOpenBin s) (getS FFilePath s) (getS FUsernamePattern s) (getS FPasswordPattern s) (getS FPassphrasePattern s) (getS FPromptPattern s) (getS FReturnChar s) (getS FAuthSecondary s) (getS FDefaultDesiredPriv s) (getS FPreferredVersion s) (getL FFailedWhen s) (getL FOpenArgs s) (getL FExtraArgs s) (getL FExtraCiphers s) (getL FExtraKexs s) (getL FPrivilegeLevels s).

Definition nfield_obj (f : nfield) : obj :=
  match f with
  | FLogger => OGeneric
  | FOnOpen => OGeneric
  | FOnClose => OGeneric
  | FPort => OArgs
  | FTimeoutSocket => OArgs
  | FReadSize => OArgs
  | FTermHeight => OArgs
  | FTermWidth => OArgs
  | FUserImpl => OArgs
  | FTimeoutOps => OChannel
  | FReadDelay => OChannel
  | FPromptSearchDepth => OChannel
  | FChannelLog => OChannel
  | FNetOnOpen => ONetwork
  | FNetOnClose => ONetwork
  end.
Definition nfield_name (f : nfield) : bytes :=
  match f with
  | FLogger => bs "Logger"
  | FOnOpen => bs "OnOpen"
  | FOnClose => bs "OnClose"
  | FPort => bs "Port"
  | FTimeoutSocket => bs "TimeoutSocket"
  | FReadSize => bs "ReadSize"
  | FTermHeight => bs "TermHeight"
  | FTermWidth => bs "TermWidth"
  | FUserImpl => bs "UserImplementation"
  | FTimeoutOps => bs "TimeoutOps"
  | FReadDelay => bs "ReadDelay"
  | FPromptSearchDepth => bs "PromptSearchDepth"
  | FChannelLog => bs "ChannelLog"
  | FNetOnOpen => bs "NetworkOnOpen"
  | FNetOnClose => bs "NetworkOnClose"
  end.
Definition bfield_obj (f : bfield) : obj :=
  match f with
  | FStrictKey => OSSHArgs
  | FNetconfConnection => OSSHArgs
  | FAuthBypass => OChannel
  | FForceSelfClosingTags => ONetconf
  | FExcludeHeader => ONetconf
  end.
Definition bfield_name (f : bfield) : bytes :=
  match f with
  | FStrictKey => bs "StrictKey"
  | FNetconfConnection => bs "NetconfConnection"
  | FAuthBypass => bs "AuthBypass"
  | FForceSelfClosingTags => bs "ForceSelfClosingTags"
  | FExcludeHeader => bs "ExcludeHeader"
  end.
Definition sfield_obj (f : sfield) : obj :=
  match f with
  | FTransportType => OGeneric
  | FUser => OArgs
  | FPassword => OArgs
  | FPrivateKeyPath => OSSHArgs
  | FPrivateKeyPassPhrase => OSSHArgs
  | FConfigFile => OSSHArgs
  | FKnownHostsFile => OSSHArgs
  | FOpenBin => OSystem
  | FFilePath => OFile
  | FUsernamePattern => OChannel
  | FPasswordPattern => OChannel
  | FPassphrasePattern => OChannel
  | FPromptPattern => OChannel
  | FReturnChar => OChannel
  | FAuthSecondary => ONetwork
  | FDefaultDesiredPriv => ONetwork
  | FPreferredVersion => ONetconf
  end.
Definition sfield_name (f : sfield) : bytes :=
  match f with
  | FTransportType => bs "TransportType"
  | FUser => bs "User"
  | FPassword => bs "Password"
  | FPrivateKeyPath => bs "PrivateKeyPath"
  | FPrivateKeyPassPhrase => bs "PrivateKeyPassPhrase"
  | FConfigFile => bs "ConfigFile"
  | FKnownHostsFile => bs "KnownHostsFile"
  | FOpenBin => bs "OpenBin"
  | FFilePath => bs "File"
  | FUsernamePattern => bs "UsernamePattern"
  | FPasswordPattern => bs "PasswordPattern"
  | FPassphrasePattern => bs "PassphrasePattern"
  | FPromptPattern => bs "PromptPattern"
  | FReturnChar => bs "ReturnChar"
  | FAuthSecondary => bs "AuthSecondary"
  | FDefaultDesiredPriv => bs "DefaultDesiredPriv"
  | FPreferredVersion => bs "PreferredVersion"
  end.
Definition lfield_obj (f : lfield) : obj :=
  match f with
  | FFailedWhen => OGeneric
  | FOpenArgs => OSystem
  | FExtraArgs => OSystem
  | FExtraCiphers => OStandard
  | FExtraKexs => OStandard
  | FPrivilegeLevels => ONetwork
  end.
Definition lfield_name (f : lfield) : bytes :=
  match f with
  | FFailedWhen => bs "FailedWhenContains"
  | FOpenArgs => bs "OpenArgs"
  | FExtraArgs => bs "ExtraArgs"
  | FExtraCiphers => bs "ExtraCiphers"
  | FExtraKexs => bs "ExtraKexs"
  | FPrivilegeLevels => bs "PrivilegeLevels"
  end.

(* END GENERATED RECORD *)

Scheme Equality for nfield.
Scheme Equality for bfield.
Scheme Equality for sfield.
Scheme Equality for lfield.

(* ---------- untyped view: a field name and its value ---------- *)
Inductive field := FN (f : nfield) | FB (f : bfield) | FS (f : sfield) | FL (f : lfield).
Scheme Equality for field.

Inductive value := VN (n : N) | VB (b : bool) | VS (s : bytes) | VL (l : list bytes).

Definition get (f : field) (s : settings) : value :=
  match f with
  | FN g => VN (getN g s) | FB g => VB (getB g s) | FS g => VS (getS g s) | FL g => VL (getL g s)
  end.

Definition field_obj (f : field) : obj :=
  match f with
  | FN g => nfield_obj g | FB g => bfield_obj g | FS g => sfield_obj g | FL g => lfield_obj g
  end.

Definition field_name (f : field) : bytes :=
  match f with
  | FN g => nfield_name g | FB g => bfield_name g | FS g => sfield_name g | FL g => lfield_name g
  end.

(* canonical dump order: object by object, fields in struct order *)
Definition all_fields : list field :=
  [ FN FLogger; FS FTransportType; FL FFailedWhen; FN FOnOpen; FN FOnClose;
    FN FPort; FS FUser; FS FPassword; FN FTimeoutSocket; FN FReadSize; FN FTermHeight; FN FTermWidth;
    FN FUserImpl;
    FB FStrictKey; FS FPrivateKeyPath; FS FPrivateKeyPassPhrase; FS FConfigFile; FS FKnownHostsFile;
    FB FNetconfConnection;
    FS FOpenBin; FL FOpenArgs; FL FExtraArgs;
    FL FExtraCiphers; FL FExtraKexs;
    FS FFilePath;
    FN FTimeoutOps; FN FReadDelay; FB FAuthBypass; FS FUsernamePattern; FS FPasswordPattern;
    FS FPassphrasePattern; FN FPromptSearchDepth; FS FPromptPattern; FS FReturnChar; FN FChannelLog;
    FS FAuthSecondary; FL FPrivilegeLevels; FS FDefaultDesiredPriv; FN FNetOnOpen; FN FNetOnClose;
    FS FPreferredVersion; FB FForceSelfClosingTags; FB FExcludeHeader ].

(* ---------- assignments ---------- *)
Inductive write :=
| WN (f : nfield) (v : N)
| WB (f : bfield) (v : bool)
| WS (f : sfield) (v : bytes)
| WL (f : lfield) (v : list bytes)
| WApp (f : lfield) (v : list bytes).     (* x.F = append(x.F, v...) *)

Definition w_field (w : write) : field :=
  match w with
  | WN f _ => FN f | WB f _ => FB f | WS f _ => FS f | WL f _ => FL f | WApp f _ => FL f
  end.

Definition w_apply (w : write) (s : settings) : settings :=
  match w with
  | WN f v => setN f v s | WB f v => setB f v s | WS f v => setS f v s | WL f v => setL f v s
  | WApp f v => setL f (getL f s ++ v) s
  end.

Definition apply_writes (ws : list write) (s : settings) : settings :=
  fold_left (fun s w => w_apply w s) ws s.

(* ---------- defaults (the struct literals of the New* functions) ---------- *)
Definition ns_per_s : N := 1000000000.
Definition ns_per_us : N := 1000.

Definition defaults : settings :=
  apply_writes
    [ (* generic.NewDriver: Logger nil (-> a logging instance with no loggers), DefaultTransport *)
      WS FTransportType tr_default_transport;
      (* transport.NewArgs *)
      WN FPort tr_default_port;
      WN FTimeoutSocket (tr_default_timeout_socket_seconds * ns_per_s);
      WN FReadSize tr_default_read_size;
      WN FTermHeight tr_default_term_height;
      WN FTermWidth tr_default_term_width;
      (* transport.NewSSHArgs *)
      WB FStrictKey tr_default_ssh_strict_key;
      (* transport.NewSystemTransport *)
      WS FOpenBin tr_default_open_bin;
      (* channel.NewChannel *)
      WN FTimeoutOps (default_timeout_ops_seconds * ns_per_s);
      WN FReadDelay (default_read_delay_us * ns_per_us);
      WS FUsernamePattern rx_username_pattern_src;
      WS FPasswordPattern rx_password_pattern_src;
      WS FPassphrasePattern rx_passphrase_pattern_src;
      WN FPromptSearchDepth (N.of_nat default_prompt_search_depth);
      WS FPromptPattern rx_prompt_pattern_src;
      WS FReturnChar default_return_char ]
    zero_settings.

(* ---------- the option constructors ---------- *)
Inductive opt :=
(* auth.go *)
| WithAuthUsername (s : bytes)
| WithAuthPassword (s : bytes)
| WithAuthSecondary (s : bytes)
| WithAuthPassphrase (s : bytes)
| WithAuthBypass
(* channel.go *)
| WithPromptSearchDepth (n : N)
| WithPromptPattern (src : bytes)
| WithUsernamePattern (src : bytes)
| WithPasswordPattern (src : bytes)
| WithPassphrasePattern (src : bytes)
| WithReturnChar (s : bytes)
| WithTimeoutOps (ns : N)
| WithReadDelay (ns : N)
| WithChannelLog (tag : N)
(* generic.go *)
| WithTransportType (s : bytes)
| WithFailedWhenContains (l : list bytes)
| WithOnOpen (tag : N)
| WithOnClose (tag : N)
(* logging.go: the logger tag is the number of loggers of the instance; 0 = nil instance *)
| WithLogger (tag : N)
| WithDefaultLogger
(* netconf.go *)
| WithNetconfPreferredVersion (s : bytes)
| WithNetconfForceSelfClosingTags
| WithNetconfExcludeHeader
(* network.go *)
| WithNetworkOnOpen (tag : N)
| WithNetworkOnClose (tag : N)
(* privilege.go: the map is represented by its patterns (sorted; Go's map order is random) *)
| WithPrivilegeLevels (patterns : list bytes)
| WithDefaultDesiredPriv (s : bytes)
(* transport.go *)
| WithCustomTransport (tag : N)
| WithTransportReadSize (n : N)
| WithPort (n : N)
| WithTermHeight (n : N)
| WithTermWidth (n : N)
| WithTimeoutSocket (ns : N)
(* transportfile.go *)
| WithFileTransportFile (s : bytes)
(* transportssh.go.  The file-resolving options carry the outcome of util.ResolveFilePath in the
   environment: [found] for an explicit path (resolved path = the path as given), the resolved
   system path (or None) for the *System variants. *)
| WithAuthPrivateKey (key pass : bytes)
| WithAuthNoStrictKey
| WithSSHConfigFile (s : bytes) (found : bool)
| WithSSHConfigFileSystem (resolved : option bytes)
| WithSSHKnownHostsFile (s : bytes) (found : bool)
| WithSSHKnownHostsFileSystem (resolved : option bytes)
(* transportstandard.go *)
| WithStandardTransportExtraCiphers (l : list bytes)
| WithStandardTransportExtraKexs (l : list bytes)
(* transportsystem.go *)
| WithSystemTransportOpenBin (s : bytes)
| WithSystemTransportOpenArgs (l : list bytes)
| WithSystemTransportOpenArgsOverride (l : list bytes).

Definition opt_name (o : opt) : bytes :=
  match o with
  | WithAuthUsername _ => bs "WithAuthUsername"
  | WithAuthPassword _ => bs "WithAuthPassword"
  | WithAuthSecondary _ => bs "WithAuthSecondary"
  | WithAuthPassphrase _ => bs "WithAuthPassphrase"
  | WithAuthBypass => bs "WithAuthBypass"
  | WithPromptSearchDepth _ => bs "WithPromptSearchDepth"
  | WithPromptPattern _ => bs "WithPromptPattern"
  | WithUsernamePattern _ => bs "WithUsernamePattern"
  | WithPasswordPattern _ => bs "WithPasswordPattern"
  | WithPassphrasePattern _ => bs "WithPassphrasePattern"
  | WithReturnChar _ => bs "WithReturnChar"
  | WithTimeoutOps _ => bs "WithTimeoutOps"
  | WithReadDelay _ => bs "WithReadDelay"
  | WithChannelLog _ => bs "WithChannelLog"
  | WithTransportType _ => bs "WithTransportType"
  | WithFailedWhenContains _ => bs "WithFailedWhenContains"
  | WithOnOpen _ => bs "WithOnOpen"
  | WithOnClose _ => bs "WithOnClose"
  | WithLogger _ => bs "WithLogger"
  | WithDefaultLogger => bs "WithDefaultLogger"
  | WithNetconfPreferredVersion _ => bs "WithNetconfPreferredVersion"
  | WithNetconfForceSelfClosingTags => bs "WithNetconfForceSelfClosingTags"
  | WithNetconfExcludeHeader => bs "WithNetconfExcludeHeader"
  | WithNetworkOnOpen _ => bs "WithNetworkOnOpen"
  | WithNetworkOnClose _ => bs "WithNetworkOnClose"
  | WithPrivilegeLevels _ => bs "WithPrivilegeLevels"
  | WithDefaultDesiredPriv _ => bs "WithDefaultDesiredPriv"
  | WithCustomTransport _ => bs "WithCustomTransport"
  | WithTransportReadSize _ => bs "WithTransportReadSize"
  | WithPort _ => bs "WithPort"
  | WithTermHeight _ => bs "WithTermHeight"
  | WithTermWidth _ => bs "WithTermWidth"
  | WithTimeoutSocket _ => bs "WithTimeoutSocket"
  | WithFileTransportFile _ => bs "WithFileTransportFile"
  | WithAuthPrivateKey _ _ => bs "WithAuthPrivateKey"
  | WithAuthNoStrictKey => bs "WithAuthNoStrictKey"
  | WithSSHConfigFile _ _ => bs "WithSSHConfigFile"
  | WithSSHConfigFileSystem _ => bs "WithSSHConfigFileSystem"
  | WithSSHKnownHostsFile _ _ => bs "WithSSHKnownHostsFile"
  | WithSSHKnownHostsFileSystem _ => bs "WithSSHKnownHostsFileSystem"
  | WithStandardTransportExtraCiphers _ => bs "WithStandardTransportExtraCiphers"
  | WithStandardTransportExtraKexs _ => bs "WithStandardTransportExtraKexs"
  | WithSystemTransportOpenBin _ => bs "WithSystemTransportOpenBin"
  | WithSystemTransportOpenArgs _ => bs "WithSystemTransportOpenArgs"
  | WithSystemTransportOpenArgsOverride _ => bs "WithSystemTransportOpenArgsOverride"
  end.

(* one sample per constructor of [opt]; [opt_samples_complete] (OptionsLemmas.v) shows every
   constructor's name occurs here, and [check_inventory] ties the names to the generated inventory
   of driver/options/*.go: an option added to (or removed from) the source breaks the check until
   the model follows. *)
Definition opt_samples : list opt :=
  [ WithAuthUsername []; WithAuthPassword []; WithAuthSecondary []; WithAuthPassphrase [];
    WithAuthBypass; WithPromptSearchDepth 0; WithPromptPattern []; WithUsernamePattern [];
    WithPasswordPattern []; WithPassphrasePattern []; WithReturnChar []; WithTimeoutOps 0;
    WithReadDelay 0; WithChannelLog 0; WithTransportType []; WithFailedWhenContains [];
    WithOnOpen 0; WithOnClose 0; WithLogger 0; WithDefaultLogger; WithNetconfPreferredVersion [];
    WithNetconfForceSelfClosingTags; WithNetconfExcludeHeader; WithNetworkOnOpen 0;
    WithNetworkOnClose 0; WithPrivilegeLevels []; WithDefaultDesiredPriv []; WithCustomTransport 0;
    WithTransportReadSize 0; WithPort 0; WithTermHeight 0; WithTermWidth 0; WithTimeoutSocket 0;
    WithFileTransportFile []; WithAuthPrivateKey [] []; WithAuthNoStrictKey;
    WithSSHConfigFile [] true; WithSSHConfigFileSystem None; WithSSHKnownHostsFile [] true;
    WithSSHKnownHostsFileSystem None; WithStandardTransportExtraCiphers [];
    WithStandardTransportExtraKexs []; WithSystemTransportOpenBin [];
    WithSystemTransportOpenArgs []; WithSystemTransportOpenArgsOverride [] ].

Definition modelled_constructors : list bytes := map opt_name opt_samples.

Definition mem_bytes (x : bytes) (l : list bytes) : bool := existsb (beqb x) l.

Definition check_inventory : bool :=
  Nat.eqb (length modelled_constructors) (length option_constructors)
  && forallb (fun n => mem_bytes n option_constructors) modelled_constructors
  && forallb (fun n => mem_bytes n modelled_constructors) option_constructors.

(* ---------- what each closure does ---------- *)

(* the object the closure type-asserts *)
Definition opt_target (o : opt) : obj :=
  match o with
  | WithAuthUsername _ | WithAuthPassword _ => OArgs
  | WithAuthSecondary _ => ONetwork
  | WithAuthPassphrase _ => OSSHArgs
  | WithAuthBypass => OChannel
  | WithPromptSearchDepth _ | WithPromptPattern _ | WithUsernamePattern _ | WithPasswordPattern _
  | WithPassphrasePattern _ | WithReturnChar _ | WithTimeoutOps _ | WithReadDelay _
  | WithChannelLog _ => OChannel
  | WithTransportType _ | WithFailedWhenContains _ | WithOnOpen _ | WithOnClose _
  | WithLogger _ | WithDefaultLogger => OGeneric
  | WithNetconfPreferredVersion _ | WithNetconfForceSelfClosingTags | WithNetconfExcludeHeader => ONetconf
  | WithNetworkOnOpen _ | WithNetworkOnClose _ | WithPrivilegeLevels _ | WithDefaultDesiredPriv _ => ONetwork
  | WithCustomTransport _ | WithTransportReadSize _ | WithPort _ | WithTermHeight _ | WithTermWidth _
  | WithTimeoutSocket _ => OArgs
  | WithFileTransportFile _ => OFile
  | WithAuthPrivateKey _ _ | WithAuthNoStrictKey | WithSSHConfigFile _ _ | WithSSHConfigFileSystem _
  | WithSSHKnownHostsFile _ _ | WithSSHKnownHostsFileSystem _ => OSSHArgs
  | WithStandardTransportExtraCiphers _ | WithStandardTransportExtraKexs _ => OStandard
  | WithSystemTransportOpenBin _ | WithSystemTransportOpenArgs _
  | WithSystemTransportOpenArgsOverride _ => OSystem
  end.

Inductive oerr := EBadOption | EFileNotFound.     (* util.ErrBadOption, util.ErrFileNotFoundError *)

(* validation: none; BEFORE the type assertion (fails on whatever object it meets first, i.e. also
   under constructors that have no such object); or AFTER it (fails only on its own target) *)
Inductive check := CkNone | CkPre (ok : bool) | CkPost (e : option oerr).

Definition tt_system : bytes := bs "system".
Definition tt_standard : bytes := bs "standard".
Definition tt_telnet : bytes := bs "telnet".
Definition tt_file : bytes := bs "file".
Definition valid_ttype (s : bytes) : bool :=
  beqb s tt_system || beqb s tt_standard || beqb s tt_telnet || beqb s tt_file.

Definition opt_check (o : opt) : check :=
  match o with
  | WithTransportType s => CkPost (if valid_ttype s then None else Some EBadOption)
  | WithNetconfPreferredVersion s => CkPre (beqb s ncd_V1Dot0 || beqb s ncd_V1Dot1)
  | WithSSHConfigFile _ found | WithSSHKnownHostsFile _ found =>
      CkPost (if found then None else Some EFileNotFound)
  | WithSSHConfigFileSystem r | WithSSHKnownHostsFileSystem r =>
      CkPost (match r with Some _ => None | None => Some EBadOption end)
  | _ => CkNone
  end.

(* the assignments performed on the target when validation passes, in statement order *)
Definition opt_writes (o : opt) : list write :=
  match o with
  | WithAuthUsername s => [WS FUser s]
  | WithAuthPassword s => [WS FPassword s]
  | WithAuthSecondary s => [WS FAuthSecondary s]
  | WithAuthPassphrase s => [WS FPrivateKeyPassPhrase s]
  | WithAuthBypass => [WB FAuthBypass true]
  | WithPromptSearchDepth n => [WN FPromptSearchDepth n]
  | WithPromptPattern p => [WS FPromptPattern p]
  | WithUsernamePattern p => [WS FUsernamePattern p]
  | WithPasswordPattern p => [WS FPasswordPattern p]
  | WithPassphrasePattern p => [WS FPassphrasePattern p]
  | WithReturnChar s => [WS FReturnChar s]
  | WithTimeoutOps t => [WN FTimeoutOps t]
  | WithReadDelay t => [WN FReadDelay t]
  | WithChannelLog w => [WN FChannelLog w]
  | WithTransportType s => [WS FTransportType s]
  | WithFailedWhenContains l => [WL FFailedWhen l]
  | WithOnOpen f => [WN FOnOpen f]
  | WithOnClose f => [WN FOnClose f]
  | WithLogger l => [WN FLogger l]
  | WithDefaultLogger => [WN FLogger 1]          (* a fresh instance with the one log.Print logger *)
  | WithNetconfPreferredVersion s => [WS FPreferredVersion s]
  | WithNetconfForceSelfClosingTags => [WB FForceSelfClosingTags true]
  | WithNetconfExcludeHeader => [WB FExcludeHeader true]
  | WithNetworkOnOpen f => [WN FNetOnOpen f]
  | WithNetworkOnClose f => [WN FNetOnClose f]
  | WithPrivilegeLevels p => [WL FPrivilegeLevels p]
  | WithDefaultDesiredPriv s => [WS FDefaultDesiredPriv s]
  | WithCustomTransport i => [WN FUserImpl i]
  | WithTransportReadSize n => [WN FReadSize n]
  | WithPort n => [WN FPort n]
  | WithTermHeight n => [WN FTermHeight n]
  | WithTermWidth n => [WN FTermWidth n]
  | WithTimeoutSocket t => [WN FTimeoutSocket t]
  | WithFileTransportFile s => [WS FFilePath s]
  | WithAuthPrivateKey k p => [WS FPrivateKeyPath k; WS FPrivateKeyPassPhrase p]
  | WithAuthNoStrictKey => [WB FStrictKey false]
  | WithSSHConfigFile s _ => [WS FConfigFile s]
  | WithSSHConfigFileSystem r => match r with Some p => [WS FConfigFile p] | None => [] end
  | WithSSHKnownHostsFile s _ => [WS FKnownHostsFile s]
  | WithSSHKnownHostsFileSystem r => match r with Some p => [WS FKnownHostsFile p] | None => [] end
  | WithStandardTransportExtraCiphers l => [WL FExtraCiphers l]   (* assigns (the doc says "extends") *)
  | WithStandardTransportExtraKexs l => [WL FExtraKexs l]
  | WithSystemTransportOpenBin s => [WS FOpenBin s]
  | WithSystemTransportOpenArgs l => [WApp FExtraArgs l]          (* the one additive option *)
  | WithSystemTransportOpenArgsOverride l => [WL FOpenArgs l]
  end.

Definition pre_ok (o : opt) : bool := match opt_check o with CkPre false => false | _ => true end.
Definition post_err (o : opt) : option oerr := match opt_check o with CkPost e => e | _ => None end.

Inductive result (A : Type) := Ok (a : A) | Err (e : oerr) | Panic.
Arguments Ok {A} a. Arguments Err {A} e. Arguments Panic {A}.
Notation BadOption := (Err EBadOption).
Notation FileNotFound := (Err EFileNotFound).

Definition bind {A B} (r : result A) (f : A -> result B) : result B :=
  match r with Ok a => f a | Err e => Err e | Panic => Panic end.

(* one closure applied to one object [ob] (whose fields live in [s]) *)
Definition apply_on (ob : obj) (o : opt) (s : settings) : result settings :=
  if negb (pre_ok o) then BadOption
  else if obj_beq (opt_target o) ob then
    match post_err o with
    | Some e => Err e
    | None => Ok (apply_writes (opt_writes o) s)
    end
  else Ok s.                                              (* util.ErrIgnoredOption, skipped *)

(* `for _, option := range opts { err = option(x); if err != nil && !ignored { return err } }` *)
Fixpoint pass (ob : obj) (opts : list opt) (s : settings) : result settings :=
  match opts with
  | [] => Ok s
  | o :: t => bind (apply_on ob o s) (pass ob t)
  end.

(* ---------- which objects a construction creates ---------- *)
Record ctx := mkCtx {
  c_kind : ctor_kind;
  c_ttype : bytes;       (* d.TransportType after the generic driver's pass *)
  c_custom : bool        (* args.UserImplementation != nil after the Args pass *)
}.

Definition exists_obj (c : ctx) (ob : obj) : bool :=
  match ob with
  | OGeneric | OArgs | OChannel => true
  | OSSHArgs => negb (c_custom c) && (beqb (c_ttype c) tt_system || beqb (c_ttype c) tt_standard)
  | OSystem => negb (c_custom c) && beqb (c_ttype c) tt_system
  | OStandard => negb (c_custom c) && beqb (c_ttype c) tt_standard
  | OFile => negb (c_custom c) && beqb (c_ttype c) tt_file
  | ONetwork => ctor_kind_beq (c_kind c) Network
  | ONetconf => ctor_kind_beq (c_kind c) Netconf
  end.

Definition pass_if (c : ctx) (ob : obj) (opts : list opt) (s : settings) : result settings :=
  if exists_obj c ob then pass ob opts s else Ok s.

Fixpoint passes (c : ctx) (obs : list obj) (opts : list opt) (s : settings) : result settings :=
  match obs with
  | [] => Ok s
  | ob :: t => bind (pass_if c ob opts s) (passes c t opts)
  end.

(* after the generic driver and the Args: NewSSHArgs (system/standard only), the implementation,
   NewChannel, then the network / NETCONF driver itself.  (NewTelnetArgs, the telnet transport and
   a user implementation also receive the list; no option targets them and a pre-validated option
   that fails there has already failed on the generic driver.) *)
Definition later_objs : list obj := [OSSHArgs; OSystem; OStandard; OFile; OChannel; ONetwork; ONetconf].

(* ---------- derived settings ---------- *)
Definition BAR : N := 124.
(* network.buildJoinedPromptPattern *)
Definition derive_network (s : settings) : settings :=
  setS FPromptPattern (join [BAR] (getL FPrivilegeLevels s)) s.
(* netconf.NewDriver: withNetconfConnection(true) is appended to the list (lands on the SSHArgs when
   there are any); netconf.Driver.Logger is the generic driver's (`Logger: gd.Logger`, since the fix
   of finding C19:netconf-logger-dropped); the prompt pattern is forced to the 1.0 delimiter. *)
Definition derive_netconf (c : ctx) (s : settings) : settings :=
  setS FPromptPattern rx_ncd_v1Dot0Delim_src
    (if exists_obj c OSSHArgs then setB FNetconfConnection true s else s).

Definition derive (c : ctx) (s : settings) : settings :=
  match c_kind c with
  | Generic => s
  | Network => derive_network s
  | Netconf => derive_netconf c s
  end.

(* network.NewDriver refuses a driver without privilege levels / default desired privilege *)
Definition net_ok (c : ctx) (s : settings) : bool :=
  match c_kind c with
  | Network => negb (beqb (getS FDefaultDesiredPriv s) [] || Nat.eqb (length (getL FPrivilegeLevels s)) 0)
  | _ => true
  end.

Definition finish (c : ctx) (s : settings) : result settings :=
  if net_ok c s then Ok (derive c s) else BadOption.

(* generic.NewDriver / network.NewDriver / netconf.NewDriver *)
Definition build (k : ctor_kind) (opts : list opt) : result settings :=
  bind (pass OGeneric opts defaults) (fun s1 =>
  bind (pass OArgs opts s1) (fun s2 =>
  let c := mkCtx k (getS FTransportType s1) (negb (getN FUserImpl s2 =? 0)) in
  bind (passes c later_objs opts s2) (finish c))).

(* ---------- the same thing as ONE fold in list order ---------- *)
(* the settings reached when every option is applied to every existing object, no validation *)
Definition raw_settled (opts : list opt) : settings :=
  fold_left (fun s o => apply_writes (opt_writes o) s) opts defaults.

Definition ctx_of (k : ctor_kind) (opts : list opt) : ctx :=
  let s := raw_settled opts in
  mkCtx k (getS FTransportType s) (negb (getN FUserImpl s =? 0)).

(* an option meets the construction [c]: ignored when its target does not exist *)
Definition apply_opt (c : ctx) (o : opt) (s : settings) : result settings :=
  if negb (pre_ok o) then BadOption
  else if exists_obj c (opt_target o) then
    match post_err o with
    | Some e => Err e
    | None => Ok (apply_writes (opt_writes o) s)
    end
  else Ok s.

Fixpoint fold_opts (c : ctx) (opts : list opt) (s : settings) : result settings :=
  match opts with
  | [] => Ok s
  | o :: t => bind (apply_opt c o s) (fold_opts c t)
  end.

Definition build_flat (k : ctor_kind) (opts : list opt) : result settings :=
  let c := ctx_of k opts in bind (fold_opts c opts defaults) (finish c).

(* why an option fails in construction [c], if it does *)
Definition opt_fail (c : ctx) (o : opt) : option oerr :=
  if negb (pre_ok o) then Some EBadOption
  else if exists_obj c (opt_target o) then post_err o else None.
Definition opt_ok (c : ctx) (o : opt) : bool := match opt_fail c o with None => true | Some _ => false end.

Definition settled (c : ctx) (opts : list opt) : settings :=
  fold_left (fun s o => if exists_obj c (opt_target o) then apply_writes (opt_writes o) s else s)
            opts defaults.

(* ---------- specification vocabulary ---------- *)
(* value carried by an assignment *)
Definition w_carried (w : write) : value :=
  match w with
  | WN _ v => VN v | WB _ v => VB v | WS _ v => VS v | WL _ v => VL v | WApp _ v => VL v
  end.
Definition w_val (w : write) (old : value) : value :=
  match w with
  | WApp _ v => match old with VL o => VL (o ++ v) | _ => VL v end
  | _ => w_carried w
  end.
Definition writes_val (f : field) (ws : list write) (v : value) : value :=
  fold_left (fun v w => if field_beq f (w_field w) then w_val w v else v) ws v.
Definition raw_val (f : field) (opts : list opt) (v : value) : value :=
  fold_left (fun v o => writes_val f (opt_writes o) v) opts v.

(* the values given to setting [f] by the options of a list, in list order *)
Definition wvals (f : field) (ws : list write) : list value :=
  flat_map (fun w => if field_beq f (w_field w) then [w_carried w] else []) ws.
Definition vals (f : field) (opts : list opt) : list value :=
  flat_map (fun o => wvals f (opt_writes o)) opts.
(* "the option names the setting" *)
Definition names (o : opt) (f : field) : Prop := In f (map w_field (opt_writes o)).
Definition namesb (o : opt) (f : field) : bool := existsb (fun w => field_beq f (w_field w)) (opt_writes o).

(* the last element, else the default *)
Definition lastv (l : list value) (d : value) : value := fold_left (fun _ x => x) l d.
Definition lists_of (vs : list value) : list bytes :=
  flat_map (fun v => match v with VL l => l | _ => [] end) vs.

(* settings a constructor computes itself, whatever the options say *)
Definition derived (k : ctor_kind) (f : field) : bool :=
  match k with
  | Generic => false
  | Network => field_beq f (FS FPromptPattern)
  | Netconf => field_beq f (FS FPromptPattern) || field_beq f (FB FNetconfConnection)
  end.

(* what of the record is reachable from the constructed driver: fields of objects that exist;
   netconf.NewDriver throws the generic driver away and keeps only its Logger and TransportType *)
Definition visible (c : ctx) (f : field) : bool :=
  exists_obj c (field_obj f)
  && negb (ctor_kind_beq (c_kind c) Netconf
           && (field_beq f (FL FFailedWhen) || field_beq f (FN FOnOpen) || field_beq f (FN FOnClose))).

(* ---------- platform definitions (platform/options.go, platform/definition.go) ---------- *)
(* a YAML scalar/sequence as yaml.v3 decodes it under interface{}.  Floats are restricted to
   multiples of 1/4 (exact in binary, so `time.Duration(f * float64(time.Second))` is exact). *)
Inductive yval :=
| YInt (n : N) | YFloat4 (quarters : N) | YStr (s : bytes) | YBool (b : bool)
| YSeq (l : list bytes)          (* a sequence of strings; decoded as []interface{}, never []string *)
| YSeqOther                      (* a sequence with some non-string element *)
| YNull.

Definition quarter_ns : N := 250000000.

(* asOptions, one entry.  Pattern strings are assumed to compile (regexp.MustCompile panics
   otherwise; outside the modelled domain). *)
Definition platform_option (name : bytes) (v : yval) : result opt :=
  let int_of f := match v with YInt n => Ok (f n) | _ => Panic end in
  let str_of f := match v with YStr s => Ok (f s) | _ => Panic end in
  let dur_of f := match v with YFloat4 q => Ok (f (q * quarter_ns)) | _ => Panic end in
  if beqb name (bs "port") then int_of WithPort
  else if beqb name (bs "auth-bypass") then Ok WithAuthBypass             (* value not looked at *)
  else if beqb name (bs "auth-strict-key") then Ok WithAuthNoStrictKey    (* value not looked at *)
  else if beqb name (bs "prompt-pattern") then str_of WithPromptPattern
  else if beqb name (bs "username-pattern") then str_of WithUsernamePattern
  else if beqb name (bs "password-pattern") then str_of WithPasswordPattern
  else if beqb name (bs "passphrase-pattern") then str_of WithPassphrasePattern
  else if beqb name (bs "return-char") then str_of WithReturnChar
  else if beqb name (bs "read-delay") then dur_of WithReadDelay
  else if beqb name (bs "timeout-ops") then dur_of WithTimeoutOps
  else if beqb name (bs "transport-type") then str_of WithTransportType
  else if beqb name (bs "read-size") then int_of WithTransportReadSize
  else if beqb name (bs "transport-pty-height") then int_of WithTermHeight
  else if beqb name (bs "transport-pty-width") then int_of WithTermWidth
  else if beqb name (bs "transport-system-open-args") then
    (* `.([]string)` never holds for a decoded value; since the fix of finding F12 the decoded
       []interface{} is accepted when every element is a string *)
    match v with YSeq l => Ok (WithSystemTransportOpenArgs l) | _ => Panic end
  else Panic.   (* unknown name: the slot stays a nil func and is called by NewDriver *)

(* the names handled above, for the tie with the generated list of platform/options.go *)
Definition modelled_platform_options : list bytes :=
  [ bs "port"; bs "auth-bypass"; bs "auth-strict-key"; bs "prompt-pattern"; bs "username-pattern";
    bs "password-pattern"; bs "passphrase-pattern"; bs "return-char"; bs "read-delay";
    bs "timeout-ops"; bs "transport-type"; bs "read-size"; bs "transport-pty-height";
    bs "transport-pty-width"; bs "transport-system-open-args" ].
Definition check_platform_inventory : bool :=
  Nat.eqb (length modelled_platform_options) (length platform_option_names)
  && forallb (fun n => mem_bytes n platform_option_names) modelled_platform_options
  && forallb (fun n => mem_bytes n modelled_platform_options) platform_option_names.

(* documented YAML type of each option's value *)
Inductive ytype := TInt | TFloat | TStr | TBool | TSeq.
Definition platform_option_type (name : bytes) : option ytype :=
  if beqb name (bs "port") || beqb name (bs "read-size") || beqb name (bs "transport-pty-height")
     || beqb name (bs "transport-pty-width") then Some TInt
  else if beqb name (bs "auth-bypass") || beqb name (bs "auth-strict-key") then Some TBool
  else if beqb name (bs "prompt-pattern") || beqb name (bs "username-pattern")
          || beqb name (bs "password-pattern") || beqb name (bs "passphrase-pattern")
          || beqb name (bs "return-char") || beqb name (bs "transport-type") then Some TStr
  else if beqb name (bs "read-delay") || beqb name (bs "timeout-ops") then Some TFloat
  else if beqb name (bs "transport-system-open-args") then Some TSeq
  else None.
Definition has_type (v : yval) (t : ytype) : bool :=
  match v, t with
  | YInt _, TInt | YFloat4 _, TFloat | YStr _, TStr | YBool _, TBool | YSeq _, TSeq => true
  | _, _ => false
  end.
Definition well_typed (d : bytes * yval) : bool :=
  match platform_option_type (fst d) with Some t => has_type (snd d) t | None => false end.

Fixpoint platform_options (defs : list (bytes * yval)) : result (list opt) :=
  match defs with
  | [] => Ok []
  | (n, v) :: t => bind (platform_option n v) (fun o => bind (platform_options t) (fun os => Ok (o :: os)))
  end.

Definition platform_tag : N := 99.     (* identity of the closures built from on-open/on-close *)

Record pdef := mkPdef {
  pd_kind : ctor_kind;                    (* driver-type: generic | network *)
  pd_failed_when : list bytes;
  pd_on_open : bool;                      (* len(on-open) > 0 *)
  pd_on_close : bool;
  pd_privs : list bytes;                  (* privilege-levels, patterns *)
  pd_default_priv : bytes;
  pd_net_on_open : bool;
  pd_net_on_close : bool;
  pd_options : list (bytes * yval)
}.

(* Platform.AsOptions: genericOptions, privilege levels, network on-open/close, the options block *)
Definition platform_opts (p : pdef) : result (list opt) :=
  bind (platform_options (pd_options p)) (fun os => Ok (
    (match pd_failed_when p with [] => [] | l => [WithFailedWhenContains l] end)
    ++ (if pd_on_open p then [WithOnOpen platform_tag] else [])
    ++ (if pd_on_close p then [WithOnClose platform_tag] else [])
    ++ [WithPrivilegeLevels (pd_privs p); WithDefaultDesiredPriv (pd_default_priv p)]
    ++ (if pd_net_on_open p then [WithNetworkOnOpen platform_tag] else [])
    ++ (if pd_net_on_close p then [WithNetworkOnClose platform_tag] else [])
    ++ os)).

(* setDriver: platform options FIRST, the user's appended *)
Definition build_platform (p : pdef) (user : list opt) : result settings :=
  bind (platform_opts p) (fun po => build (pd_kind p) (po ++ user)).
