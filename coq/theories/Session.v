(* Session.v — CLI sessions over the [Channel] interpreter: the scripted device, SendCommand(s) as
   programs, the specification side of C01 (what each result must be) and the phase hypotheses
   (the property's own preconditions, as decidable predicates so that they can be evaluated on
   every generated case).  Definitions only; proofs in SessionLemmas.v. *)
From Scrapli Require Import Bytes Regex PlatformTypes Generated Channel.
Open Scope N_scope.

(* A device seen from the transport: its reaction to the k-th write is the k-th burst.  (Any
   deterministic reactive device facing a deterministic client is such a script.) *)
Definition script := list bytes.
Definition sfeed (d : script) (b : bytes) : script * bytes :=
  match d with e :: t => (t, e) | [] => ([], []) end.

Definition TAG_RESULT : N := 1.

(* generic.Driver.SendCommands / repeated SendCommand: one SendInput per command, in order; each
   completed result is logged (Note) so that partial progress is observable in the state *)
Fixpoint send_commands_prog (cfg : chan_cfg) (o : op_opts) (cmds : list bytes) : prog (list bytes) :=
  match cmds with
  | [] => Ret []
  | c :: rest =>
      bind (send_input cfg c o)
           (fun r => Note TAG_RESULT r (bind (send_commands_prog cfg o rest) (fun rs => Ret (r :: rs))))
  end.

(* the writes a session must perform: each command followed by one return, nothing redacted *)
Definition expected_writes (cfg : chan_cfg) (cmds : list bytes) : list (bytes * bool) :=
  flat_map (fun c => [(c, false); (c_ret cfg, false)]) cmds.

(* ---------- one read-until phase ---------- *)

(* [T] is the normalised stream the phase sees (stale leftovers of the previous phase followed by
   the device's burst, CR removed).  The phase is well-behaved when its condition is false on
   every prefix shorter than [lo] and true on every prefix from [lo] on. *)
Definition prefixes_false (cfg : chan_cfg) (c : cond) (T : bytes) (lo : nat) : bool :=
  forallb (fun j => negb (cond_holds cfg c (firstn j T))) (seq 0 lo).
Definition prefixes_true (cfg : chan_cfg) (c : cond) (T : bytes) (lo : nat) : bool :=
  forallb (fun j => cond_holds cfg c (firstn j T)) (seq lo (S (length T) - lo)).

Definition phase_ok (cfg : chan_cfg) (c : cond) (T : bytes) (lo : nat) : bool :=
  Nat.leb lo (length T) && Nat.ltb 0 lo && prefixes_false cfg c T lo && prefixes_true cfg c T lo.

(* ---------- one exchange (command i) ---------- *)

Record exchange := mkEx {
  x_cmd : bytes;
  x_echo : bytes;       (* burst emitted in reaction to the command bytes *)
  x_resp : bytes;       (* burst emitted in reaction to the return *)
  x_echo_lo : nat;      (* first prefix length of (stale ++ N echo) at which the echo condition holds, per stale below *)
  x_resp_lo : nat;      (* first prefix length of N resp at which the prompt condition holds *)
  x_result : bytes      (* what the send must return *)
}.

(* what may be left over from the previous response phase: any suffix of its stream beyond lo *)
Definition leftovers (T : bytes) (lo : nat) : list bytes :=
  map (fun j => skipn j T) (seq lo (S (length T) - lo)).

Definition prompt_cond (cfg : chan_cfg) (o : op_opts) : cond :=
  match o_interim o with [] => CPrompt | ps => CAnyPrompt (c_prompt cfg :: ps) end.

(* hypotheses of one exchange, for every stale tail it can inherit:
   - echo phase: the echo condition first holds exactly when the whole (stale ++ echo) has been
     read (the echo burst ends with the last command byte), so nothing is left over;
   - response phase: the prompt condition is false before [x_resp_lo], true from there to the
     end of the burst, and every exit point yields the same result [x_result]. *)
Definition exchange_ok (cfg : chan_cfg) (o : op_opts) (stales : list bytes) (x : exchange) : bool :=
  forallb (fun st =>
             let T := st ++ drop_cr (x_echo x) in
             match x_cmd x with
             | [] => match T with [] => true | _ => false end   (* echo read skipped: nothing may be left to leak into the response phase *)
             | _ => phase_ok cfg (echo_cond o (x_cmd x)) T (length T)
             end) stales
  && (let T := drop_cr (x_resp x) in
      phase_ok cfg (prompt_cond cfg o) T (x_resp_lo x)
      && forallb (fun j => beqb (process_out cfg (firstn j T) (o_strip o)) (x_result x))
                 (seq (x_resp_lo x) (S (length T) - x_resp_lo x)))
  && negb (mem_byte 27 (x_echo x)) && negb (mem_byte 27 (x_resp x))
  && negb (o_eager o).

Fixpoint session_ok (cfg : chan_cfg) (o : op_opts) (stales : list bytes) (xs : list exchange) : bool :=
  match xs with
  | [] => true
  | x :: rest =>
      exchange_ok cfg o stales x
      && session_ok cfg o (leftovers (drop_cr (x_resp x)) (x_resp_lo x)) rest
  end.

Definition bursts_of (xs : list exchange) : script := flat_map (fun x => [x_echo x; x_resp x]) xs.

Definition fault_free (sched : list ev) : bool :=
  forallb (fun e => match e with Rd _ | Op => true | _ => false end) sched.

(* the whole session: configuration, options, what is pending when the first command is sent
   (banner / initial prompt, already normalised leftovers are expressed through [stales]) *)
Definition session_sys (cfg : chan_cfg) (o : op_opts) (start : bytes) (xs : list exchange)
  : @sys script (list bytes) :=
  init_sys (bursts_of xs) start (send_commands_prog cfg o (map x_cmd xs)).
