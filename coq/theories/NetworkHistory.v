(* NetworkHistory.v — C04, last sentence of the property: "Commands are always executed at the
   default desired level and configuration lines at the configuration (or explicitly requested)
   level, whatever level earlier operations left the device in."

   Histories of network-driver operations at the level of whole exchanges (NetworkAbs): the
   operations of driver/network — SendCommand(s) (with its shortcut: no AcquirePriv when the cached
   level already is the default desired level, sendcommand.go / sendcommands.go), SendConfigs
   (always AcquirePriv to "configuration" or the requested level, sendconfigs.go) and AcquirePriv —
   run against the abstract device.  Definitions only; theorems in NetworkHistoryLemmas.v. *)
From Coq Require Import List Bool Arith.
From Scrapli Require Import Bytes Regex PlatformTypes Generated Channel Network NetworkAbs NetworkLemmas NetworkTwins.
Import ListNotations.

Inductive aop :=
| OCmd (lines : list bytes)                 (* SendCommand / SendCommands *)
| OCfg (priv : bytes) (lines : list bytes)  (* SendConfigs; priv = [] means "configuration" *)
| OAcq (target : bytes).                    (* AcquirePriv *)

(* the lines of an operation arrive one by one *)
Definition send_lines (ls : list (bytes * level)) (d : adev) (lines : list bytes) : adev :=
  fold_left (dev_line ls) lines d.

Definition cfg_target (priv : bytes) : bytes :=
  match priv with [] => net_default_configuration_priv | p => p end.

(* one operation: Some (device, cached level) or None when the implicit / explicit acquire fails *)
Definition run_aop (net : netcfg) (prompt_of : bytes -> bytes) (d : adev) (cached : bytes) (o : aop)
  : option (adev * bytes) :=
  match o with
  | OCmd lines =>
      if beqb cached (n_default net) then Some (send_lines (n_levels net) d lines, cached)
      else match acquire_priv_abs net prompt_of d cached (n_default net) with
           | AOk d' c' => Some (send_lines (n_levels net) d' lines, c')
           | _ => None
           end
  | OCfg priv lines =>
      match acquire_priv_abs net prompt_of d cached (cfg_target priv) with
      | AOk d' c' => Some (send_lines (n_levels net) d' lines, c')
      | _ => None
      end
  | OAcq t =>
      match acquire_priv_abs net prompt_of d cached t with
      | AOk d' c' => Some (d', c')
      | _ => None
      end
  end.

Fixpoint run_aops (net : netcfg) (prompt_of : bytes -> bytes) (d : adev) (cached : bytes) (ops : list aop)
  : option (adev * bytes) :=
  match ops with
  | [] => Some (d, cached)
  | o :: t => match run_aop net prompt_of d cached o with
              | Some (d', c') => run_aops net prompt_of d' c' t
              | None => None
              end
  end.

(* the level an operation's own lines must be executed at *)
Definition op_level (net : netcfg) (o : aop) : option bytes :=
  match o with
  | OCmd _ => Some (n_default net)
  | OCfg priv _ => Some (cfg_target priv)
  | OAcq _ => None
  end.
Definition op_lines (o : aop) : list bytes :=
  match o with OCmd l | OCfg _ l => l | OAcq _ => [] end.
Definition op_target (net : netcfg) (o : aop) : bytes :=
  match o with OCmd _ => n_default net | OCfg priv _ => cfg_target priv | OAcq t => t end.

(* a user line that does not itself change the device's mode when typed at [mode]
   (the property's device: "modes form the configured privilege tree"; a line that IS a mode
   change typed behind the driver's back is the known finding F25) *)
Definition line_inert (ls : list (bytes * level)) (mode line : bytes) : Prop :=
  d_mode (dev_line ls (mkADev mode []) line) = mode.

Definition op_inert (net : netcfg) (o : aop) : Prop :=
  match op_level net o with
  | Some m => Forall (line_inert (n_levels net) m) (op_lines o)
  | None => True
  end.

(* what the device's log must gain: the commands of the tree path to the operation's level (none
   when SendCommand's shortcut applies, i.e. the device already is at the default level), then the
   operation's non-empty lines, each logged AT THAT LEVEL *)
Definition nonempty_lines (l : list bytes) : list bytes :=
  filter (fun x => match x with [] => false | _ => true end) l.

Fixpoint expected_log (net : netcfg) (mode : bytes) (ops : list aop) : list (bytes * bytes) :=
  match ops with
  | [] => []
  | o :: t =>
      let tgt := op_target net o in
      (match tree_path (n_levels net) mode tgt with Some p => path_cmds (n_levels net) p | None => [] end)
      ++ map (fun l => (tgt, l)) (nonempty_lines (op_lines o))
      ++ expected_log net tgt t
  end.

(* the session invariant on d.CurrentPriv: it names the device's true mode, or it is not a level
   name at all (the initial "" / "UNKNOWN") and the true mode's prompt is unambiguous *)
Definition cache_inv (net : netcfg) (prompt_of : bytes -> bytes) (d : adev) (cached : bytes) : Prop :=
  cached = d_mode d \/
  (~ In cached (names (n_levels net)) /\ determine_current net (prompt_of (d_mode d)) = [d_mode d]).
