(* WriteSrc.v — channel/write.go as the source has it on this run (C06, C11): Channel.Write logs ONE
   message, whose only argument is `lm` — the literal `redacted` when the write is flagged, the
   bytes otherwise — and returns what the transport's Write returns, whatever it is (a write error
   reaches the operation in flight as it is).  WriteAndReturn stops at a failed write, else sends
   the return through the same Write, unflagged. *)
From Scrapli Require Import DecideLang GeneratedSkel.
From Coq Require Import String List Bool.
Import ListNotations.
Open Scope string_scope.

Definition w_env (r err_nil : bool) : denv :=
  mkEnvX (fun _ => false) (fun a b => String.eqb a "err" && String.eqb b "nil" && err_nil)
         (fun _ => "") (fun a => if String.eqb a "r" then Some r else None)
         (fun _ _ _ => None) (fun _ => O) (fun _ _ => None).

Fixpoint trace_eqb (a b : list (string * string)) : bool :=
  match a, b with
  | [], [] => true
  | (k, v) :: a', (k', v') :: b' => String.eqb k k' && String.eqb v v' && trace_eqb a' b'
  | _, _ => false
  end.

Definition write_ok (r : bool) : bool :=
  match DecideLang.exec 10 (w_env r true) chan_write_code [] with
  | Returned st v =>
      String.eqb v "c.t.Write(b)"
      && trace_eqb (rev st)
           (app [("lm", "string(b)")]
                (app (if r then [("lm", "redacted")] else [])
                     [("!call", "c.l.Debugf(""channel write %#v"", lm)")]))
  | _ => false
  end.

Definition write_and_return_ok (err_nil : bool) : bool :=
  match DecideLang.exec 10 (w_env false err_nil) chan_write_and_return_code [] with
  | Returned st v =>
      String.eqb v (if err_nil then "c.WriteReturn()" else "err") && trace_eqb st [("err", "c.Write(b, r)")]
  | _ => false
  end.

Definition write_src_ok : bool :=
  write_ok false && write_ok true && write_and_return_ok true && write_and_return_ok false
  && match chan_write_return_code with [DReturn v] => String.eqb v "c.Write(c.ReturnChar, false)" | _ => false end
  && tests_known chan_write_code ["r"] && tests_known chan_write_and_return_code ["err == nil"].

Theorem write_is_source : write_src_ok = true.
Proof. vm_compute. reflexivity. Qed.
Print Assumptions write_is_source.
