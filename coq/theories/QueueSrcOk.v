(* QueueSrcOk.v — the finite evaluation behind C20_queue_is_source, kept apart from the definitions
   it evaluates (QueueSrc.v) so that those still compile — and the diagnosis can still run them —
   when the source no longer passes. *)
From Scrapli Require Import DecideLang GeneratedSkel QueueSrc.
From Coq Require Import String List.
Open Scope string_scope.

Lemma queue_src_ok_true : queue_src_ok = true.
Proof. vm_compute. reflexivity. Qed.

(* every test the translated code makes is one the environment above was written for (an unknown
   equality would otherwise evaluate to false without notice) *)
Definition queue_known : list string := "q.getDepth() == 0" :: nil.
Lemma queue_tests_known : tests_known (flat_map (fun e => snd e) GeneratedSkel.queue_code) queue_known = true.
Proof. vm_compute. reflexivity. Qed.
