(* QueueSrcOk.v — the finite evaluation behind C20_queue_is_source, kept apart from the definitions
   it evaluates (QueueSrc.v) so that those still compile — and the diagnosis can still run them —
   when the source no longer passes. *)
From Scrapli Require Import QueueSrc.

Lemma queue_src_ok_true : queue_src_ok = true.
Proof. vm_compute. reflexivity. Qed.
