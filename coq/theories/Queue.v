(* Queue.v — small-step model of util/queue.go under one producer and one consumer (C20).
   Granularity: every lock operation and every operation on the 1-slot depth mailbox
   (`depthChan`, a buffered channel of capacity 1 that always holds the current depth when nobody
   is updating it) is one atomic step; the slice/depth mutation happens together with acquiring
   the lock because nothing else can observe it before the mailbox is republished.
   Data-generic: chunks are an arbitrary type [A]. Definitions only. *)
From Coq Require Import List Arith Bool Lia.
Import ListNotations.

Section Queue.
  Variable A : Type.

  Inductive tid := Prod | Cons.

  (* consumer operations; CRequeue puts the most recently obtained chunk back at the front *)
  Inductive cop := CDequeue | CDequeueAll | CRequeue | CGetDepth.

  (* program counters.  Mutating operations share the tail  Locked -> took mailbox -> put mailbox
     -> unlock. *)
  Inductive ppc :=
  | PIdle
  | PHaveLock        (* Lock taken, slice and depth updated; next: <-depthChan *)
  | PTookBox         (* mailbox emptied; next: depthChan <- depth *)
  | PPutBox.         (* mailbox refilled; next: Unlock *)

  Inductive cpc :=
  | CIdle
  | CPeekTook (o : cop) (d : nat)   (* getDepth: took d out of the mailbox; next: put it back *)
  | CPeekDone (o : cop) (d : nat)   (* put back; next: test d = 0 / Lock *)
  | CHaveLock (o : cop)             (* Lock taken, slice and depth updated *)
  | CTookBox (o : cop)
  | CPutBox (o : cop)
  | CRLocked.                       (* GetDepth: RLock held; next: read depth, RUnlock *)

  Inductive lockst := Free | HeldBy (t : tid) | ReadBy (t : tid).

  Record st := mkSt {
    q : list A;                (* q.queue *)
    depth : nat;               (* q.depth *)
    box : option nat;          (* depthChan contents *)
    lk : lockst;               (* q.lock *)
    pp : ppc; todo : list A;   (* producer: pc and chunks still to enqueue *)
    cp : cpc; cops : list cop; (* consumer: pc and operations still to run *)
    got : list A;              (* chunks the consumer holds, oldest first (net of put-backs) *)
    produced : list A;         (* ghost: chunks enqueued so far, oldest first *)
    depth_seen : list nat;     (* results of CGetDepth, newest first *)
    nils : nat;                (* how many Dequeue/DequeueAll returned nil *)
    panicked : bool            (* q.queue[0] on an empty slice *)
  }.

  Definition init (chunks : list A) (ops : list cop) : st :=
    mkSt [] 0 (Some 0) Free PIdle chunks CIdle ops [] [] [] 0 false.

  Definition upd_prod (s : st) q' depth' box' lk' pp' todo' produced' : st :=
    mkSt q' depth' box' lk' pp' todo' (cp s) (cops s) (got s) produced' (depth_seen s) (nils s) (panicked s).

  (* one step of the producer, if enabled *)
  Definition step_prod (s : st) : option st :=
    match pp s with
    | PIdle =>
        match todo s, lk s with
        | b :: rest, Free =>
            Some (upd_prod s (q s ++ [b]) (S (depth s)) (box s) (HeldBy Prod) PHaveLock rest (produced s ++ [b]))
        | _, _ => None
        end
    | PHaveLock =>
        match box s with
        | Some _ => Some (upd_prod s (q s) (depth s) None (lk s) PTookBox (todo s) (produced s))
        | None => None
        end
    | PTookBox =>
        match box s with
        | None => Some (upd_prod s (q s) (depth s) (Some (depth s)) (lk s) PPutBox (todo s) (produced s))
        | Some _ => None
        end
    | PPutBox => Some (upd_prod s (q s) (depth s) (box s) Free PIdle (todo s) (produced s))
    end.

  Definition upd_cons (s : st) q' depth' box' lk' cp' cops' got' seen' nils' pan' : st :=
    mkSt q' depth' box' lk' (pp s) (todo s) cp' cops' got' (produced s) seen' nils' pan'.

  Definition keep (s : st) cp' cops' : st :=
    upd_cons s (q s) (depth s) (box s) (lk s) cp' cops' (got s) (depth_seen s) (nils s) (panicked s).

  Fixpoint last_and_init (l : list A) : option (list A * A) :=
    match l with
    | [] => None
    | [x] => Some ([], x)
    | x :: t => match last_and_init t with Some (i, z) => Some (x :: i, z) | None => None end
    end.

  Definition step_cons (s : st) : option st :=
    match cp s with
    | CIdle =>
        match cops s with
        | [] => None
        | CGetDepth :: rest =>
            match lk s with
            | Free => Some (upd_cons s (q s) (depth s) (box s) (ReadBy Cons) CRLocked rest (got s) (depth_seen s) (nils s) (panicked s))
            | _ => None
            end
        | CRequeue :: rest =>
            (* Requeue(b): Lock; prepend; depth++ *)
            match last_and_init (got s), lk s with
            | Some (i, b), Free =>
                Some (upd_cons s (b :: q s) (S (depth s)) (box s) (HeldBy Cons) (CHaveLock CRequeue) rest i (depth_seen s) (nils s) (panicked s))
            | None, _ => Some (keep s CIdle rest)       (* nothing in hand: the operation is skipped *)
            | _, _ => None
            end
        | o :: rest =>
            (* Dequeue / DequeueAll start with getDepth: d := <-depthChan *)
            match box s with
            | Some d => Some (upd_cons s (q s) (depth s) None (lk s) (CPeekTook o d) rest (got s) (depth_seen s) (nils s) (panicked s))
            | None => None
            end
        end
    | CPeekTook o d =>
        match box s with
        | None => Some (upd_cons s (q s) (depth s) (Some d) (lk s) (CPeekDone o d) (cops s) (got s) (depth_seen s) (nils s) (panicked s))
        | Some _ => None
        end
    | CPeekDone o d =>
        if Nat.eqb d 0 then
          Some (upd_cons s (q s) (depth s) (box s) (lk s) CIdle (cops s) (got s) (depth_seen s) (S (nils s)) (panicked s))
        else
          match lk s with
          | Free =>
              match o with
              | CDequeueAll =>
                  Some (upd_cons s [] 0 (box s) (HeldBy Cons) (CHaveLock o) (cops s) (got s ++ q s) (depth_seen s) (nils s) (panicked s))
              | _ =>
                  match q s with
                  | b :: t => Some (upd_cons s t (pred (depth s)) (box s) (HeldBy Cons) (CHaveLock o) (cops s) (got s ++ [b]) (depth_seen s) (nils s) (panicked s))
                  | [] => Some (upd_cons s (q s) (depth s) (box s) (HeldBy Cons) CIdle (cops s) (got s) (depth_seen s) (nils s) true)
                  end
              end
          | _ => None
          end
    | CHaveLock o =>
        match box s with
        | Some _ => Some (upd_cons s (q s) (depth s) None (lk s) (CTookBox o) (cops s) (got s) (depth_seen s) (nils s) (panicked s))
        | None => None
        end
    | CTookBox o =>
        match box s with
        | None => Some (upd_cons s (q s) (depth s) (Some (depth s)) (lk s) (CPutBox o) (cops s) (got s) (depth_seen s) (nils s) (panicked s))
        | Some _ => None
        end
    | CPutBox o => Some (upd_cons s (q s) (depth s) (box s) Free CIdle (cops s) (got s) (depth_seen s) (nils s) (panicked s))
    | CRLocked =>
        Some (upd_cons s (q s) (depth s) (box s) Free CIdle (cops s) (got s) (depth s :: depth_seen s) (nils s) (panicked s))
    end.

  Definition step (s : st) (t : tid) : option st :=
    if panicked s then None else match t with Prod => step_prod s | Cons => step_cons s end.

  (* a schedule is any list of thread choices; choosing a blocked thread is a no-op (it waits) *)
  Fixpoint exec (s : st) (sched : list tid) : st :=
    match sched with
    | [] => s
    | t :: rest => match step s t with Some s' => exec s' rest | None => exec s rest end
    end.

  Definition reachable (chunks : list A) (ops : list cop) (s : st) : Prop :=
    exists sched, s = exec (init chunks ops) sched.

  Definition finished (s : st) : Prop := pp s = PIdle /\ todo s = [] /\ cp s = CIdle /\ cops s = [].
  Definition quiescent (s : st) : Prop := pp s = PIdle /\ cp s = CIdle.

End Queue.

Arguments init {A}. Arguments exec {A}. Arguments step {A}. Arguments reachable {A}.
Arguments finished {A}. Arguments quiescent {A}.
