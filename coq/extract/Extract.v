(* Extraction of the executable models.  ExtrOcamlBasic only: bool/option/unit/list/prod/sumbool
   map to OCaml's; nat, positive, N, Z stay Coq inductives (exact arithmetic). *)
From Coq Require Extraction.
From Coq Require Import ExtrOcamlBasic.
From Scrapli Require Import Bytes Runner.
Extraction Language OCaml.
Extraction "model.ml" run_line.
