(* main.ml — hand-written driver for the extracted model: reads one case per line on stdin,
   hands the characters (as Coq N values) to Model.run_line, prints the characters it returns.
   Nothing else happens here. *)
open Model

let rec pos_of_int (n : int) : positive =
  if n = 1 then XH
  else if n land 1 = 1 then XI (pos_of_int (n lsr 1))
  else XO (pos_of_int (n lsr 1))

let n_of_int (n : int) : n = if n = 0 then N0 else Npos (pos_of_int n)

let rec int_of_pos (p : positive) : int =
  match p with XH -> 1 | XO q -> 2 * int_of_pos q | XI q -> 2 * int_of_pos q + 1

let int_of_n (x : n) : int = match x with N0 -> 0 | Npos p -> int_of_pos p

let table = Array.init 256 n_of_int

let () =
  let buf = Buffer.create 4096 in
  (try
     while true do
       let line = input_line stdin in
       let len = String.length line in
       let rec build i acc = if i < 0 then acc else build (i - 1) (table.(Char.code line.[i]) :: acc) in
       let res = run_line (build (len - 1) []) in
       Buffer.clear buf;
       List.iter (fun c -> Buffer.add_char buf (Char.chr ((int_of_n c) land 255))) res;
       print_string (Buffer.contents buf);
       print_newline ()
     done
   with End_of_file -> ())
