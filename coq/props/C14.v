(* C14 — SSH connections honour strict host-key checking and the configured identity.
   Property theorems only; proofs in theories/SshArgsLemmas.v.  The model (theories/SshArgs.v)
   takes every literal of the ssh argument list from Generated.v (re-extracted from
   transport/system.go on every run) and the default strictness from transport/transport.go.
   What is proved is the DECISION LOGIC of both transports for all configurations (all strings);
   that OpenSSH / crypto/ssh enforce the option / callback they are given is runtime behaviour,
   exercised by the harness against an in-process SSH server. *)
From Scrapli Require Import Bytes Generated SshArgs SshArgsLemmas.
Open Scope N_scope.

(* ---------- system transport: the argument list ---------- *)

(* the whole list, in order, for every configuration *)
Theorem C14_argv_shape : forall c,
  ssh_argv c =
    [ c_host c; bs "-p"; print_dec (c_port c);
      bs "-o"; bs "ConnectTimeout=" ++ print_dec (c_timeout c);
      bs "-o"; bs "ServerAliveInterval=" ++ print_dec (c_timeout c) ]
    ++ (match c_user c with [] => [] | u => [bs "-l"; u] end)
    ++ (if c_strict c
        then [bs "-o"; bs "StrictHostKeyChecking=yes"]
             ++ match c_known_hosts c with [] => [] | f => [bs "-o"; bs "UserKnownHostsFile=" ++ f] end
        else [bs "-o"; bs "StrictHostKeyChecking=no"; bs "-o"; bs "UserKnownHostsFile=/dev/null"])
    ++ (match c_config c with [] => [bs "-F"; bs "/dev/null"] | f => [bs "-F"; f] end)
    ++ (match c_key c with [] => [] | k => [bs "-i"; k] end)
    ++ c_extra c
    ++ (if c_netconf c then [bs "-s"; bs "netconf"] else []).
Proof. exact ssh_argv_spec. Qed.

(* strict (the default): "-o StrictHostKeyChecking=yes" is passed ... *)
Theorem C14_sys_strict_yes : forall c, c_strict c = true ->
  adjacent (bs "-o") (bs "StrictHostKeyChecking=yes") (ssh_argv c).
Proof. exact argv_strict_yes. Qed.

(* ... and "StrictHostKeyChecking=no" is not, unless the caller passes that very text as host,
   user, config file, key path or extra argument ([user_free]) *)
Theorem C14_sys_strict_no_absent : forall c, c_strict c = true ->
  user_free (bs "StrictHostKeyChecking=no") c ->
  ~ In (bs "StrictHostKeyChecking=no") (ssh_argv c).
Proof. exact argv_strict_no_absent. Qed.

Theorem C14_sys_strict_no_devnull : forall c, c_strict c = true ->
  user_free (bs "UserKnownHostsFile=/dev/null") c -> c_known_hosts c <> bs "/dev/null" ->
  ~ In (bs "UserKnownHostsFile=/dev/null") (ssh_argv c).
Proof. exact argv_strict_no_null. Qed.

(* strict and a known-hosts file configured: ssh is pointed at that file *)
Theorem C14_sys_known_hosts : forall c, c_strict c = true -> c_known_hosts c <> [] ->
  adjacent (bs "-o") (bs "UserKnownHostsFile=" ++ c_known_hosts c) (ssh_argv c).
Proof. exact argv_known_hosts. Qed.

(* checking explicitly disabled: "=no" and /dev/null, and no "=yes" *)
Theorem C14_sys_not_strict : forall c, c_strict c = false ->
  adjacent (bs "-o") (bs "StrictHostKeyChecking=no") (ssh_argv c)
  /\ adjacent (bs "-o") (bs "UserKnownHostsFile=/dev/null") (ssh_argv c).
Proof. exact argv_not_strict. Qed.

Theorem C14_sys_not_strict_yes_absent : forall c, c_strict c = false ->
  user_free (bs "StrictHostKeyChecking=yes") c ->
  ~ In (bs "StrictHostKeyChecking=yes") (ssh_argv c).
Proof. exact argv_not_strict_yes_absent. Qed.

(* configured identity *)
Theorem C14_sys_host : forall c, nth_error (ssh_argv c) 0 = Some (c_host c).
Proof. exact argv_host_first. Qed.

Theorem C14_sys_port : forall c,
  nth_error (ssh_argv c) 1 = Some (bs "-p") /\ nth_error (ssh_argv c) 2 = Some (print_dec (c_port c)).
Proof. exact argv_port. Qed.

Theorem C14_sys_user : forall c, c_user c <> [] -> adjacent (bs "-l") (c_user c) (ssh_argv c).
Proof. exact argv_user. Qed.

Theorem C14_sys_no_user : forall c, c_user c = [] -> user_free (bs "-l") c ->
  ~ In (bs "-l") (ssh_argv c).
Proof. exact argv_no_user. Qed.

Theorem C14_sys_config : forall c,
  adjacent (bs "-F") (match c_config c with [] => bs "/dev/null" | f => f end) (ssh_argv c).
Proof. exact argv_config. Qed.

Theorem C14_sys_config_default : forall host,
  adjacent (bs "-F") (bs "/dev/null") (ssh_argv (default_cfg host)).
Proof. exact argv_config_default. Qed.

Theorem C14_sys_key : forall c, c_key c <> [] -> adjacent (bs "-i") (c_key c) (ssh_argv c).
Proof. exact argv_key. Qed.

Theorem C14_sys_no_key : forall c, c_key c = [] -> user_free (bs "-i") c ->
  ~ In (bs "-i") (ssh_argv c).
Proof. exact argv_no_key. Qed.

Theorem C14_sys_extra_last : forall c, exists pre,
  ssh_argv c = pre ++ c_extra c ++ (if c_netconf c then [bs "-s"; bs "netconf"] else []).
Proof. exact argv_extra_last. Qed.

(* the password never reaches the command line: the argument list is not a function of it *)
Theorem C14_sys_password_independent : forall c p1 p2,
  ssh_argv (set_password c p1) = ssh_argv (set_password c p2).
Proof. exact argv_password_independent. Qed.

Theorem C14_sys_password_absent : forall c,
  (forall e, In e (ssh_argv (set_password c [])) -> contains (c_password c) e = false) ->
  forall e, In e (ssh_argv c) -> contains (c_password c) e = false.
Proof. exact argv_password_absent. Qed.

(* ---------- standard transport: host-key policy and authentication methods ---------- *)
Theorem C14_std_strict_nofile : forall c, c_strict c = true -> c_known_hosts c = [] ->
  std_policy c = PErrNoFile.
Proof. exact std_policy_strict_nofile. Qed.

Theorem C14_std_strict_file : forall c, c_strict c = true -> c_known_hosts c <> [] ->
  std_policy c = PKnownHosts (c_known_hosts c).
Proof. exact std_policy_strict_file. Qed.

Theorem C14_std_not_strict : forall c, c_strict c = false -> std_policy c = PInsecure.
Proof. exact std_policy_not_strict. Qed.

Theorem C14_std_insecure_only_if_disabled : forall c, std_policy c = PInsecure -> c_strict c = false.
Proof. exact std_policy_insecure_only_if_disabled. Qed.

(* for every known-hosts verdict [kh]: under strict checking the handshake gets past the host
   key only if a file is configured and it lists the server's key *)
Theorem C14_std_connects_strict : forall kh c, c_strict c = true -> std_connects kh c = true ->
  c_known_hosts c <> [] /\ kh (c_known_hosts c) = true.
Proof. exact std_connects_strict. Qed.

Theorem C14_std_connects_not_strict : forall kh c, c_strict c = false -> std_connects kh c = true.
Proof. exact std_connects_not_strict. Qed.

(* publickey iff a key path is set; then password and keyboard-interactive iff a password is set:
   the password is handed to crypto/ssh through these two methods only *)
Theorem C14_std_auth : forall c,
  (In APublicKey (std_auth c) <-> c_key c <> [])
  /\ (In APassword (std_auth c) <-> c_password c <> [])
  /\ (In AKeyboardInteractive (std_auth c) <-> c_password c <> [])
  /\ std_auth c = (match c_key c with [] => [] | _ => [APublicKey] end)
                  ++ (match c_password c with [] => [] | _ => [APassword; AKeyboardInteractive] end).
Proof. exact std_auth_spec. Qed.

Theorem C14_std_target : forall c,
  std_addr c = c_host c ++ bs ":" ++ print_dec (c_port c) /\ std_user c = c_user c.
Proof. exact std_target. Qed.

(* ---------- default ---------- *)
Theorem C14_default_strict : tr_default_ssh_strict_key = true.
Proof. exact default_strict. Qed.

Theorem C14_default_cfg_strict : forall host, c_strict (default_cfg host) = true.
Proof. exact default_cfg_strict. Qed.

(* non-vacuity: concrete configurations, by computation *)
Theorem C14_example_default :
  ssh_argv (default_cfg (bs "r1")) =
  [ bs "r1"; bs "-p"; bs "22"; bs "-o"; bs "ConnectTimeout=30"; bs "-o"; bs "ServerAliveInterval=30";
    bs "-o"; bs "StrictHostKeyChecking=yes"; bs "-F"; bs "/dev/null" ].
Proof. exact ex_default_argv. Qed.

Print Assumptions C14_argv_shape.
Print Assumptions C14_sys_strict_yes.
Print Assumptions C14_sys_strict_no_absent.
Print Assumptions C14_sys_strict_no_devnull.
Print Assumptions C14_sys_known_hosts.
Print Assumptions C14_sys_not_strict.
Print Assumptions C14_sys_not_strict_yes_absent.
Print Assumptions C14_sys_host.
Print Assumptions C14_sys_port.
Print Assumptions C14_sys_user.
Print Assumptions C14_sys_no_user.
Print Assumptions C14_sys_config.
Print Assumptions C14_sys_config_default.
Print Assumptions C14_sys_key.
Print Assumptions C14_sys_no_key.
Print Assumptions C14_sys_extra_last.
Print Assumptions C14_sys_password_independent.
Print Assumptions C14_sys_password_absent.
Print Assumptions C14_std_strict_nofile.
Print Assumptions C14_std_strict_file.
Print Assumptions C14_std_not_strict.
Print Assumptions C14_std_insecure_only_if_disabled.
Print Assumptions C14_std_connects_strict.
Print Assumptions C14_std_connects_not_strict.
Print Assumptions C14_std_auth.
Print Assumptions C14_std_target.
Print Assumptions C14_default_strict.
Print Assumptions C14_default_cfg_strict.
Print Assumptions C14_example_default.

(* ---- the standard transport's decisions are the source's: Standard.openBase translated statement
   by statement on this run (gen/decide.go -> GeneratedSkel.standard_open_base_code) ---- *)
From Scrapli Require Import DecideLang GeneratedSkel DecideStd.

(* for every configuration: the host-key policy installed (insecure ONLY when strict checking is
   off; the known-hosts callback of the configured file otherwise; an error before dialling when
   strict and no file) and the authentication methods offered, in order, are the model's *)
Theorem C14_std_open_base_is_source : forall c ciphers kexs,
  so_run (so_tests_of c ciphers kexs) =
  Some (policy_kind (std_policy c),
        match std_policy c with PErrNoFile => [] | _ => std_auth c end).
Proof. exact standard_open_base_is_source. Qed.

Print Assumptions C14_std_open_base_is_source.

(* every test that the translated functions of this property make is one the environments of their
   ties were written for: a test that is new in the source breaks this (an unknown equality would
   otherwise evaluate to false without notice) *)
From Scrapli Require Import DecideLang GeneratedSkel DecideStd.
Theorem C14_source_tests_known :
  tests_known standard_open_base_code standard_open_base_known = true.
Proof. exact standard_open_base_tests_known. Qed.
Print Assumptions C14_source_tests_known.

(* Standard.openSession as translated: every Open dials, first and unconditionally, with the
   configuration openBase built; then the session and its pipes; the first failing step ends it *)
From Scrapli Require Import StdSessionSrc.
Theorem C14_open_session_is_source : open_session_ok = true.
Proof. exact open_session_is_source. Qed.
Print Assumptions C14_open_session_is_source.
