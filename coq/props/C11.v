(* C11 — Credentials never reach the logs.
   Property theorems only; proofs in theories/ChanTraceLemmas.v.  Channel.Write logs the payload or the generated literal
   "redacted"; [sim] relates two programs that differ only in the payload of redacted writes; noninterference: with a
   device whose reactions do not depend on what is typed (the property's 'device does not echo secrets'), everything
   that reaches the loggers is the same whatever the secrets are. *)
From Scrapli Require Import Bytes BytesLemmas Regex PlatformTypes Generated Channel Network Session SessionLemmas ChanTrace ChanTraceLemmas.

(* paths of similar programs have the same visible log *)
Theorem C11_noninterference_traces : forall (cfg : chan_cfg) (R : Type) (p q : prog R) (t : list obs), sim p q -> ptrace cfg p t -> exists t' : list obs, ptrace cfg q t' /\ visible t' = visible t /\ length t' = length t.
Proof. exact @sim_trace. Qed.

(* executions of similar programs proceed in lock step with equal visible logs *)
Theorem C11_noninterference_runs : forall (cfg : chan_cfg) (R : Type) (p q : prog R) (script0 : script) (start : bytes) (sched : list ev), sim p q -> let a := run sfeed cfg sched (init_sys script0 start p) in let b := run sfeed cfg sched (init_sys script0 start q) in map (fun w : bytes * bool => if snd w then redacted else fst w) (s_wlog a) = map (fun w : bytes * bool => if snd w then redacted else fst w) (s_wlog b) /\ s_notes a = s_notes b /\ sim (s_pc a) (s_pc b) /\ s_queue a = s_queue b /\ s_pending a = s_pending b.
Proof. exact @sim_run_sfeed. Qed.

(* ssh login: independent of password and passphrase *)
Theorem C11_ssh_login : forall (cfg : chan_cfg) (ap : auth_pats) (pw1 pp1 pw2 pp2 : bytes), sim (channel_open cfg ap (AuthSSH pw1 pp1)) (channel_open cfg ap (AuthSSH pw2 pp2)).
Proof. exact @sim_channel_open_ssh. Qed.

(* telnet login: independent of user name and password *)
Theorem C11_telnet_login : forall (cfg : chan_cfg) (ap : auth_pats) (u1 pw1 u2 pw2 : bytes), sim (channel_open cfg ap (AuthTelnet u1 pw1)) (channel_open cfg ap (AuthTelnet u2 pw2)).
Proof. exact @sim_channel_open_telnet. Qed.

(* privilege escalation: independent of the secondary secret *)
Theorem C11_escalation : forall (net : netcfg) (s1 s2 : list N) (target : bytes), s1 <> [] -> s2 <> [] -> sim (escalate (with_secondary net s1) target) (escalate (with_secondary net s2) target).
Proof. exact @sim_escalate. Qed.

(* the whole AcquirePriv loop: independent of the secondary secret *)
Theorem C11_acquire : forall (net : netcfg) (s1 s2 : list N) (c t : bytes), s1 <> [] -> s2 <> [] -> sim (acquire_priv (with_secondary net s1) c t) (acquire_priv (with_secondary net s2) c t).
Proof. exact @sim_acquire_priv. Qed.

(* network SendCommand with its implicit privilege change *)
Theorem C11_send_command : forall (net : netcfg) (s1 s2 : list N) (cached cmd : bytes) (o : op_opts), s1 <> [] -> s2 <> [] -> sim (net_send_command (with_secondary net s1) cached cmd o) (net_send_command (with_secondary net s2) cached cmd o).
Proof. exact @sim_net_send_command. Qed.

(* interactive sends: independent of the inputs of hidden events *)
Theorem C11_hidden_inputs : forall (cfg : chan_cfg) (evs1 evs2 : list ievent) (o : op_opts), Forall2 ev_agree evs1 evs2 -> sim (send_interactive cfg evs1 o) (send_interactive cfg evs2 o).
Proof. exact @sim_send_interactive. Qed.

(* hence a secret that does not occur in the log of a run with another secret does not occur in its own *)
Theorem C11_secret_absent : forall (cfg : chan_cfg) (R : Type) (p : bytes -> prog R), (forall s1 s2 : list N, s1 <> [] -> s2 <> [] -> sim (p s1) (p s2)) -> forall (s s' : list N) (script0 : script) (start : bytes) (sched : list ev), s <> [] -> s' <> [] -> let a := run sfeed cfg sched (init_sys script0 start (p s)) in let b := run sfeed cfg sched (init_sys script0 start (p s')) in vis_log a = vis_log b /\ ((forall x : bytes, In x (vis_log b) -> contains s x = false) -> forall x : bytes, In x (vis_log a) -> contains s x = false).
Proof. exact @secret_absent. Qed.

Print Assumptions C11_noninterference_traces.
Print Assumptions C11_noninterference_runs.
Print Assumptions C11_ssh_login.
Print Assumptions C11_telnet_login.
Print Assumptions C11_escalation.
Print Assumptions C11_acquire.
Print Assumptions C11_send_command.
Print Assumptions C11_hidden_inputs.
Print Assumptions C11_secret_absent.

(* channel/write.go as translated: Channel.Write logs one message whose only argument is `lm`: the literal `redacted` when the write is flagged *)
From Scrapli Require Import WriteSrc.
Theorem C11_write_is_source : write_src_ok = true.
Proof. exact write_is_source. Qed.
Print Assumptions C11_write_is_source.

(* escalate as translated: the secret is the HIDDEN second event of an interactive send made through
   the channel (whose result keeps no record of the inputs), and nothing else in the function touches it *)
From Scrapli Require Import EscalateSrc.
Theorem C11_escalate_is_source : esc_table_ok = true.
Proof. exact escalate_is_source. Qed.
Print Assumptions C11_escalate_is_source.
