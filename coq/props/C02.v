(* C02 — NETCONF replies decode to exactly the payload, or are explicitly failed.
   Property theorems only; proofs in theories/NetconfLemmas.v (and BytesLemmas.v).
   [record11_go] is the cursor-level transcription of response.record1dot1Chunks in which every
   d[i] / d[i:j] is a checked access yielding DPanic where Go would panic; [record11_spec] is the
   functional decoder; [encode11] is an RFC 6242 encoder written independently of both. *)
From Scrapli Require Import Bytes BytesLemmas Regex PlatformTypes Generated Netconf NetconfLemmas.

(* the Go loop, access by access, computes the functional decoder ... *)
Theorem C02_go_refines_spec : forall raw, record11_go raw = record11_spec raw.
Proof. exact record11_go_refines. Qed.

(* ... so decoding never panics, whatever bytes arrive (either version) *)
Theorem C02_never_panics : forall v raw, record v raw <> RecPanic.
Proof. exact record_no_panic. Qed.

(* every legal chunking of every payload, any chunk sizes, surrounded by any ASCII whitespace,
   decodes to exactly the payload (XML declaration and surrounding whitespace trimmed) *)
Theorem C02_wellformed_11 : forall chunks pre post,
  chunks <> [] -> Forall chunk_ok chunks -> ws pre -> ws post ->
  record11_go (pre ++ encode11 chunks ++ post) = DOk (finish11 (concat chunks)).
Proof. intros. rewrite record11_go_refines. now apply wellformed11. Qed.

(* a successful decode returns only bytes the server sent, in order *)
Theorem C02_never_invents : forall raw r, record11_go raw = DOk r ->
  exists joined, r = finish11 joined /\ subseq joined raw.
Proof. intros raw r H. rewrite record11_go_refines in H. now apply record11_subseq. Qed.

(* malformed, truncated or inconsistent framing is a parse error: *)
(* - any truncation of a well-formed frame (other than dropping only the final LF) *)
Theorem C02_truncated_fails : forall chunks k,
  chunks <> [] -> Forall chunk_ok chunks -> (k + 1 < length (encode11 chunks))%nat ->
  exists e, record11_go (firstn k (encode11 chunks)) = DFail e.
Proof. intros. rewrite record11_go_refines. now apply truncated_fails. Qed.

(* - missing end-of-chunks marker *)
Theorem C02_no_terminator_fails : forall chunks, chunks <> [] -> Forall chunk_ok chunks ->
  exists e, record11_go (concat (map encode_chunk chunks)) = DFail e.
Proof. intros. rewrite record11_go_refines. now apply no_terminator_fails. Qed.

(* - a size field that Atoi rejects (non-numeric, out of range, empty sign ...) *)
Theorem C02_bad_size_fails : forall pre_chunks sz data rest,
  Forall chunk_ok pre_chunks -> sz <> [] -> ~ In 10 sz -> go_atoi sz = None -> hd_error sz <> Some 35 ->
  exists e, record11_go (concat (map encode_chunk pre_chunks) ++ [10; 35] ++ sz ++ [10] ++ data ++ rest) = DFail e.
Proof. intros. rewrite record11_go_refines. now apply bad_size_fails_strong. Qed.

(* - a negative size *)
Theorem C02_negative_size_fails : forall pre_chunks digits data rest,
  Forall chunk_ok pre_chunks -> ~ In 10 digits -> parse_dec digits <> Some 0 ->
  exists e, record11_go (concat (map encode_chunk pre_chunks) ++ [10; 35] ++ (45 :: digits) ++ [10] ++ data ++ rest) = DFail e.
Proof. intros. rewrite record11_go_refines. now apply negative_size_fails. Qed.

(* - a size header not terminated within the generated maximum length *)
Theorem C02_long_header_fails : forall pre_chunks hdr rest,
  Forall chunk_ok pre_chunks -> (nc_max_chunk_size_char_len < length hdr)%nat ->
  ~ In 10 (firstn (S nc_max_chunk_size_char_len) hdr) -> hd_error hdr <> Some 35 ->
  exists e, record11_go (concat (map encode_chunk pre_chunks) ++ [10; 35] ++ hdr ++ rest) = DFail e.
Proof. intros. rewrite record11_go_refines. now apply long_header_fails. Qed.

(* - junk where a chunk marker is due *)
Theorem C02_junk_marker_fails : forall pre_chunks k b rest,
  pre_chunks <> [] -> Forall chunk_ok pre_chunks -> b <> 10 -> b <> 35 ->
  exists e, record11_go (concat (map encode_chunk pre_chunks) ++ repeat 10 k ++ [b] ++ rest) = DFail e.
Proof. intros. rewrite record11_go_refines. now apply junk_marker_fails. Qed.

(* failure marking of Record: a parse error marks the response failed and yields no result;
   otherwise it is failed exactly when a generated rpc-error marker occurs in the framed bytes or
   in the decoded payload *)
Theorem C02_record_marking : forall raw,
  match record11_go raw with
  | DOk r => record V11 raw = RecOut r (carries_marker raw || carries_marker r) false
  | DFail _ => record V11 raw = RecOut [] false true
  | DPanic => False
  end.
Proof.
  intros raw. unfold record, record_with. pose proof (record11_no_panic raw) as Hp.
  destruct (record11_go raw); [reflexivity | reflexivity | congruence].
Qed.

Print Assumptions C02_go_refines_spec.
Print Assumptions C02_never_panics.
Print Assumptions C02_wellformed_11.
Print Assumptions C02_never_invents.
Print Assumptions C02_truncated_fails.
Print Assumptions C02_no_terminator_fails.
Print Assumptions C02_bad_size_fails.
Print Assumptions C02_negative_size_fails.
Print Assumptions C02_long_header_fails.
Print Assumptions C02_junk_marker_fails.
Print Assumptions C02_record_marking.
