(* C02 — NETCONF replies decode to exactly the payload, or are explicitly failed.
   Property theorems only; proofs in theories/NetconfLemmas.v (and BytesLemmas.v).
   [record11_go] is the cursor-level transcription of response.record1dot1Chunks in which every
   d[i] / d[i:j] is a checked access yielding DPanic where Go would panic; [record11_spec] is the
   functional decoder; [encode11] is an RFC 6242 encoder written independently of both. *)
From Scrapli Require Import Bytes BytesLemmas Regex PlatformTypes Generated Channel Netconf NetconfLemmas NcSession NcSessionLemmas NcSegLemmas.

(* the Go loop, access by access, computes the functional decoder ... *)
Theorem C02_go_refines_spec : forall raw, record11_go raw = record11_spec raw.
Proof. exact record11_go_refines. Qed.

(* ... so decoding never panics, whatever bytes arrive (either version) *)
Theorem C02_never_panics : forall v raw, record v raw <> RecPanic.
Proof. exact record_no_panic. Qed.

(* every legal chunking of every payload, any chunk sizes, surrounded by any ASCII whitespace,
   decodes to exactly the payload (XML declaration and surrounding whitespace trimmed) *)
Theorem C02_wellformed_11 : forall chunks pre post,
  chunks <> [] -> Forall chunk_ok chunks -> ws pre -> ws post ->
  record11_go (pre ++ encode11 chunks ++ post) = DOk (finish11 (concat chunks)).
Proof. intros. rewrite record11_go_refines. now apply wellformed11. Qed.

(* a successful decode returns only bytes the server sent, in order *)
Theorem C02_never_invents : forall raw r, record11_go raw = DOk r ->
  exists joined, r = finish11 joined /\ subseq joined raw.
Proof. intros raw r H. rewrite record11_go_refines in H. now apply record11_subseq. Qed.

(* malformed, truncated or inconsistent framing is a parse error: *)
(* - any truncation of a well-formed frame (other than dropping only the final LF) *)
Theorem C02_truncated_fails : forall chunks k,
  chunks <> [] -> Forall chunk_ok chunks -> (k + 1 < length (encode11 chunks))%nat ->
  exists e, record11_go (firstn k (encode11 chunks)) = DFail e.
Proof. intros. rewrite record11_go_refines. now apply truncated_fails. Qed.

(* - missing end-of-chunks marker *)
Theorem C02_no_terminator_fails : forall chunks, chunks <> [] -> Forall chunk_ok chunks ->
  exists e, record11_go (concat (map encode_chunk chunks)) = DFail e.
Proof. intros. rewrite record11_go_refines. now apply no_terminator_fails. Qed.

(* - a size field that Atoi rejects (non-numeric, out of range, empty sign ...) *)
Theorem C02_bad_size_fails : forall pre_chunks sz data rest,
  Forall chunk_ok pre_chunks -> sz <> [] -> ~ In 10 sz -> go_atoi sz = None -> hd_error sz <> Some 35 ->
  exists e, record11_go (concat (map encode_chunk pre_chunks) ++ [10; 35] ++ sz ++ [10] ++ data ++ rest) = DFail e.
Proof. intros. rewrite record11_go_refines. now apply bad_size_fails_strong. Qed.

(* - a negative size *)
Theorem C02_negative_size_fails : forall pre_chunks digits data rest,
  Forall chunk_ok pre_chunks -> ~ In 10 digits -> parse_dec digits <> Some 0 ->
  exists e, record11_go (concat (map encode_chunk pre_chunks) ++ [10; 35] ++ (45 :: digits) ++ [10] ++ data ++ rest) = DFail e.
Proof. intros. rewrite record11_go_refines. now apply negative_size_fails. Qed.

(* - a size header not terminated within the generated maximum length *)
Theorem C02_long_header_fails : forall pre_chunks hdr rest,
  Forall chunk_ok pre_chunks -> (nc_max_chunk_size_char_len < length hdr)%nat ->
  ~ In 10 (firstn (S nc_max_chunk_size_char_len) hdr) -> hd_error hdr <> Some 35 ->
  exists e, record11_go (concat (map encode_chunk pre_chunks) ++ [10; 35] ++ hdr ++ rest) = DFail e.
Proof. intros. rewrite record11_go_refines. now apply long_header_fails. Qed.

(* - junk where a chunk marker is due *)
Theorem C02_junk_marker_fails : forall pre_chunks k b rest,
  pre_chunks <> [] -> Forall chunk_ok pre_chunks -> b <> 10 -> b <> 35 ->
  exists e, record11_go (concat (map encode_chunk pre_chunks) ++ repeat 10 k ++ [b] ++ rest) = DFail e.
Proof. intros. rewrite record11_go_refines. now apply junk_marker_fails. Qed.

(* failure marking of Record: a parse error marks the response failed and yields no result;
   otherwise it is failed exactly when a generated rpc-error marker occurs in the framed bytes or
   in the decoded payload *)
Theorem C02_record_marking : forall raw,
  match record11_go raw with
  | DOk r => record V11 raw = RecOut r (carries_marker raw || carries_marker r) false
  | DFail _ => record V11 raw = RecOut [] false true
  | DPanic => False
  end.
Proof.
  intros raw. unfold record, record_with. pose proof (record11_no_panic raw) as Hp.
  destruct (record11_go raw); [reflexivity | reflexivity | congruence].
Qed.


(* NETCONF 1.0: a payload followed by the end-of-message delimiter (and any whitespace) decodes to
   exactly the payload, XML declaration and surrounding whitespace trimmed (no hypothesis on the
   payload: the empty and the all-blank payload included) *)
Theorem C02_wellformed_10 : forall p post, ws post ->
  record10 (p ++ nc_v1dot0_delim ++ post) = go_trim_space (trim_prefix nc_xml_header p).
Proof. exact record10_payload_any. Qed.

(* "for every way its bytes are split into transport reads": the read loop of driver/netconf
   (NcSession.nc_read_chunk, iterated by [read_chunks]) files the same message under the same id
   whatever the cut, provided no read boundary makes a proper prefix look complete (the delimiter
   pattern does not match it) -- two cuts of one message give the same buffer and store *)
Theorem C02_split_independent : forall v st cs1 cs2 m,
  concat cs1 = m -> concat cs2 = m ->
  (forall k, (k < length cs1)%nat -> rx_match (delim_re v) (concat (firstn k cs1)) = false) ->
  (forall k, (k < length cs2)%nat -> rx_match (delim_re v) (concat (firstn k cs2)) = false) ->
  rx_match (delim_re v) m = true -> contains END_RPC m = false ->
  message_id_of m <> 0%Z ->
  read_chunks v [] st cs1 = read_chunks v [] st cs2.
Proof. exact split_independent_eq. Qed.

(* end to end, 1.1: a reply that is a legal RFC 6242 chunking of a payload, cut into reads in any
   such way, is returned by the call whose message-id it carries with exactly the payload as result
   (declaration and whitespace trimmed), not marked as a parse error, marked failed exactly by the
   rpc-error markers *)
Theorem C02_reply_any_split_11 : forall s o p ws0 cs pre chunks post,
  n_ver s = V11 ->
  n_buf s = [] -> n_panic s = false -> op_payload o = BOk p ->
  let m := pre ++ encode11 chunks ++ post in
  concat cs = m ->
  (forall k, (k < length cs)%nat -> rx_match (delim_re V11) (concat (firstn k cs)) = false) ->
  rx_match (delim_re V11) m = true -> contains END_RPC m = false ->
  message_id_of m = Z.of_N (n_next_id s) -> Z.of_N (n_next_id s) <> 0%Z ->
  chunks <> [] -> Forall chunk_ok chunks -> ws pre -> ws post ->
  exists s',
    do_rpc s o (map NW ws0 ++ map NR cs)
    = (s', ROk (Z.of_N (n_next_id s))
               (ser_raw (serialize V11 (n_force s) (n_xh s) (n_next_id s) p))
               (ser_framed (serialize V11 (n_force s) (n_xh s) (n_next_id s) p))
               (finish11 (concat chunks))
               (carries_marker m || carries_marker (finish11 (concat chunks))) false) /\
    n_buf s' = [] /\ n_store s' = store_del (n_store s) (Z.of_N (n_next_id s)) /\
    n_next_id s' = n_next_id s + 1.
Proof. exact reply_never_lost_11. Qed.

(* ... and 1.0 *)
Theorem C02_reply_any_split_10 : forall s o p ws0 cs payload post,
  n_ver s = V10 ->
  n_buf s = [] -> n_panic s = false -> op_payload o = BOk p ->
  let m := payload ++ nc_v1dot0_delim ++ post in
  concat cs = m ->
  (forall k, (k < length cs)%nat -> rx_match (delim_re V10) (concat (firstn k cs)) = false) ->
  rx_match (delim_re V10) m = true -> contains END_RPC m = false ->
  message_id_of m = Z.of_N (n_next_id s) -> Z.of_N (n_next_id s) <> 0%Z ->
  ws post ->
  exists s',
    do_rpc s o (map NW ws0 ++ map NR cs)
    = (s', ROk (Z.of_N (n_next_id s))
               (ser_raw (serialize V10 (n_force s) (n_xh s) (n_next_id s) p))
               (ser_framed (serialize V10 (n_force s) (n_xh s) (n_next_id s) p))
               (go_trim_space (trim_prefix nc_xml_header payload))
               (carries_marker m) false) /\
    n_buf s' = [] /\ n_store s' = store_del (n_store s) (Z.of_N (n_next_id s)) /\
    n_next_id s' = n_next_id s + 1.
Proof. exact reply_never_lost_10. Qed.

(* --- the source itself: record1dot1Chunks as translated on this run (GeneratedSkel.record_chunks_code),
   every test and statement given its arithmetic meaning over the parser's variables (RecordSrc.v), an
   index or slice out of range a panic: its run on ANY reply is the cursor model's result ... *)
From Scrapli Require Import DecideLang GeneratedSkel RecordSrc RecordSrcOk.
Theorem C02_record_chunks_is_source : forall raw, record_chunks_src raw = Some (record11_go raw).
Proof. exact record_chunks_is_source. Qed.

(* ... so the theorems above are theorems about that run: it never panics, never runs out of
   iterations, and decodes every legal chunking to exactly the payload *)
Theorem C02_source_never_panics : forall raw, exists r, record_chunks_src raw = Some r /\ r <> DPanic.
Proof.
  intros raw. exists (record11_go raw). split; [exact (record_chunks_is_source raw)|exact (record11_no_panic raw)].
Qed.

Theorem C02_source_wellformed_11 : forall chunks pre post,
  chunks <> [] -> Forall chunk_ok chunks -> ws pre -> ws post ->
  record_chunks_src (pre ++ encode11 chunks ++ post) = Some (DOk (finish11 (concat chunks))).
Proof. intros. rewrite record_chunks_is_source, record11_go_refines. f_equal. now apply wellformed11. Qed.

(* Record / record1dot1 as translated: the rpc-error scan of the raw bytes, the decoder of the session's
   version, under 1.1 the second scan (of the decoded payload) only when nothing failed; a decoder
   error marks the response failed *)
Theorem C02_record_steps_are_source : record_steps_ok = true.
Proof. exact record_steps_are_source. Qed.

Print Assumptions C02_go_refines_spec.
Print Assumptions C02_never_panics.
Print Assumptions C02_wellformed_11.
Print Assumptions C02_never_invents.
Print Assumptions C02_truncated_fails.
Print Assumptions C02_no_terminator_fails.
Print Assumptions C02_bad_size_fails.
Print Assumptions C02_negative_size_fails.
Print Assumptions C02_long_header_fails.
Print Assumptions C02_junk_marker_fails.
Print Assumptions C02_record_marking.
Print Assumptions C02_wellformed_10.
Print Assumptions C02_split_independent.
Print Assumptions C02_reply_any_split_11.
Print Assumptions C02_reply_any_split_10.
Print Assumptions C02_record_chunks_is_source.
Print Assumptions C02_source_never_panics.
Print Assumptions C02_source_wellformed_11.
Print Assumptions C02_record_steps_are_source.

(* message boundaries: the NETCONF read loop as translated (one round, all 512 combinations): the
   buffer is examined after every append, an echo of the own rpc is cut at the first delimiter of the
   session's version, a complete reply is filed whole *)
From Scrapli Require Import NcReadSrc.
Theorem C02_read_round_is_source : nc_read_table_ok = true.
Proof. exact nc_read_round_is_source. Qed.
Print Assumptions C02_read_round_is_source.

(* record1dot0 and recordRPCErrors as translated: the steps of Netconf.record10 in order; a failure
   marker ANYWHERE in the bytes given marks the response failed (Netconf.carries_marker) *)
Theorem C02_record_rest_is_source : record_rest_ok = true.
Proof. exact record_rest_is_source. Qed.
Print Assumptions C02_record_rest_is_source.
