(* C15 — Telnet option negotiation is answered and kept out of the data stream.
   Property theorem only; proof in theories/TelnetLemmas.v. *)
From Scrapli Require Import Bytes Regex PlatformTypes Generated Telnet TelnetLemmas.

(* For every server opening — any sequence of option negotiations (all four verbs, any option
   code), two-byte commands, escaped IAC and data bytes — the byte-at-a-time parser of
   transport/telnet.go ends with an empty control buffer, has answered each request exactly once
   with the RFC answer (in order), and has buffered for the first Read exactly the data bytes, in
   order, and nothing else.  Segmentation into TCP reads is immaterial because the parser consumes
   one byte at a time from the stream ([fold_left] over the bytes). *)
Theorem C15_negotiation : forall toks, Forall token_ok toks ->
  run_telnet (flat_map render toks) = mkT [] (flat_map spec_data toks) (flat_map spec_reply toks).
Proof. exact negotiation_correct. Qed.

(* the defect this check found in the original code, kept as a regression witness *)
Theorem C15_unfixed_refuted :
  t_data (fold_left handle_unfixed (flat_map render [TCmd 241; TData 104; TData 105]) t_init) = []
  /\ t_data (run_telnet (flat_map render [TCmd 241; TData 104; TData 105])) = [104; 105].
Proof. exact unfixed_swallows_data. Qed.

Print Assumptions C15_negotiation.
Print Assumptions C15_unfixed_refuted.

(* ---- the byte handler is the source's: handleControlCharResponse translated statement by
   statement on this run (gen/decide.go -> GeneratedSkel.telnet_handle_code) ---- *)
From Scrapli Require Import DecideLang GeneratedSkel DecideTel.

(* for every control buffer and every byte (writes succeeding) the translated function changes
   control buffer, data buffer and replies exactly as the model's [handle] *)
Theorem C15_handle_is_source : forall s c,
  option_map (tel_apply s c) (tel_run (tel_tests_of s c)) = Some (handle s c).
Proof. exact telnet_handle_is_source. Qed.

Print Assumptions C15_handle_is_source.

(* every test that the translated functions of this property make is one the environments of their
   ties were written for: a test that is new in the source breaks this (an unknown equality would
   otherwise evaluate to false without notice) *)
From Scrapli Require Import DecideLang GeneratedSkel DecideTel.
Theorem C15_source_tests_known :
  tests_known telnet_handle_code telnet_handle_known = true.
Proof. exact telnet_handle_tests_known. Qed.
Print Assumptions C15_source_tests_known.
