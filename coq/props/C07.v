(* C07 — Close always completes: no panic, no deadlock, no leaked goroutine, no data race.
   Property theorems only; proofs in theories/CloseLemmas.v, the kernel (interleaving semantics,
   reachability, the soundness lemma [closed_covers_all]) in theories/Conc.v, the goroutine
   control-flow graphs in theories/Close.v.

   What is proved is a statement about the PROTOCOL MODEL: the systems [sys_of sc] have one
   instruction per synchronisation-relevant statement of channel.read / Channel.Read /
   Channel.Close / Transport.read / Transport.Close / netconf Driver.read / Driver.Close / the
   sendRPC wait (labels = code sites), Go's semantics of unbuffered channels, close, select,
   sync.Once and sync.Mutex as encoded in Conc.step.  Every theorem quantifies over
     - every scenario [sc] in scope: CLI or NETCONF; connection idle / reader parked in the
       transport read / EOF already seen / error pending on the Errs hand-off / data, an error or
       EOF arriving concurrently / anything (StAny); what a blocked read does when the transport
       is closed (returns EOF / an error / stays blocked); with or without a second Close call
       (sequential or concurrent); with or without an operation / RPC in flight;
     - EVERY schedule [sched : list (thread * choice)], of any length: all interleavings of the
       modelled instructions, all select choices, the timer of Close firing at any moment, the
       environment acting at any moment.
   That the real goroutines behave like the model is the correspondence checked by the harness
   (outcomes: CloseRun.run_c07; recorded yield-point traces: CloseRun.accepts). *)
From Scrapli Require Import Conc Close CloseDefs CloseLemmas CloseRun GeneratedSkel CloseSkel CloseSkelOk.
From Coq Require Import List Arith Bool NArith.
Import ListNotations.

(* ---------- the model carries the source's synchronisation statements ---------- *)

(* For every Go function the model transcribes (Channel.read, Channel.Read, Channel.Close,
   Transport.read, Transport.Close, netconf Driver.Close, Driver.read, sendRPC with its polling
   goroutine, System.getFd / setFd / Read / Close) the ordered list of synchronisation statements
   re-extracted from /repo on this run (GeneratedSkel.sync_skeleton) equals the list computed from
   the instructions of the model's graphs, and every labelled program point of every graph is one
   of those statements. *)
Theorem C07_model_matches_source :
  (forallb check_entry expected = true /\ all_functions_expected = true) /\
  (all_covered = true /\ system_copies_agree = true).
Proof. exact (conj skeleton_matches skeleton_covers). Qed.

(* ---------- fixed code ---------- *)

(* no goroutine panics (send on closed channel / close of closed channel), ever *)
Theorem C07_no_panic : forall sc, in_scope sc = true ->
  forall sched : sched, panic (exec (sys_of sc) sched) = 0.
Proof. exact no_panic. Qed.

(* Close never gets stuck: after ANY schedule there is a continuation after which every Close call
   has returned (AG EF returned), and Close is loop-free: along any schedule a closer takes at most
   CLOSER_BOUND steps.  What remains assumed is scheduler fairness (a goroutine that can step is
   eventually scheduled: the closer itself, and whoever holds implLock in the graceful path) and
   that the timer of Close's select eventually fires. *)
Theorem C07_close_never_stuck : forall sc, in_scope sc = true ->
  forall sched : sched,
    (exists sched', closers_returned sc (exec (sys_of sc) (sched ++ sched')) = true) /\
    moves (sys_of sc) T_CLOSER1 (init (sys_of sc)) sched <= CLOSER_BOUND /\
    moves (sys_of sc) T_CLOSER2 (init (sys_of sc)) sched <= CLOSER_BOUND.
Proof.
  intros sc H sched. split.
  - exact (close_never_stuck sc H sched).
  - exact (closer_moves_bounded sc H sched).
Qed.

(* whenever some Close call has returned, the transport has been closed *)
Theorem C07_transport_closed : forall sc, in_scope sc = true ->
  forall sched : sched,
    some_closer_returned sc (exec (sys_of sc) sched) = true ->
    transport_closed (exec (sys_of sc) sched) = true.
Proof. exact transport_closed_on_return. Qed.

(* the graceful path Transport.Close(false) — the one that takes implLock, which a blocked read
   holds — is entered only after the reader goroutine has returned (so after its deferred Unlock):
   it cannot deadlock against a blocked read *)
Theorem C07_graceful_close_after_reader_exit : forall sc, in_scope sc = true ->
  forall (sched : sched) t, (t = T_CLOSER1 \/ (t = T_CLOSER2 /\ sc_second sc = true)) ->
    in_graceful sc (exec (sys_of sc) sched) t = true ->
    exited_at (sys_of sc) (exec (sys_of sc) sched) T_READER = true.
Proof. exact graceful_only_after_reader_exit. Qed.

(* no goroutine outlives Close: in every reachable state in which no thread can move any more and
   the Close calls have returned, the reader goroutine, the NETCONF read loop / in-flight caller,
   the RPC waiter and sendRPC's polling goroutine are at Exit — when the transport's blocked read returns (EOF or error) on
   close ... *)
Theorem C07_no_leak : forall sc, in_scope sc = true -> is_block (sc_tc sc) = false ->
  forall sched : sched, let s := exec (sys_of sc) sched in
    quiescent sc s -> closers_returned sc s = true ->
    forall t, In t [T_READER; T_USER; T_RPC; T_POLLER] -> exited_at (sys_of sc) s t = true.
Proof. exact no_leak_unblocking. Qed.

(* ... and that state stays reachable whatever has happened (AG EF all gone) *)
Theorem C07_no_leak_live : forall sc, in_scope sc = true -> is_block (sc_tc sc) = false ->
  forall sched : sched, exists sched', all_gone sc (exec (sys_of sc) (sched ++ sched')) = true.
Proof. exact all_exit_reachable. Qed.

(* for a transport whose blocked read stays blocked the only thread that can remain is the reader,
   inside Impl.Read ... *)
Theorem C07_no_leak_blocking : forall sc, in_scope sc = true ->
  forall sched : sched, let s := exec (sys_of sc) sched in
    quiescent sc s -> closers_returned sc s = true ->
    forall t, In t [T_READER; T_USER; T_RPC; T_POLLER] -> thread_gone sc s t = true.
Proof. exact no_leak. Qed.

(* ... and it necessarily does remain there (witness schedule) *)
Theorem C07_reader_remains_if_read_stays_blocked :
  exists sched : sched,
    let s := exec (sys_of sc_blocked_stays) sched in
    succs (sys_of sc_blocked_stays) s = [] /\ closers_returned sc_blocked_stays s = true /\
    reader_in_read s = true.
Proof.
  exists w_reader_remains.
  pose proof reader_remains_when_read_stays_blocked as H. unfold goal_reader_remains in H.
  apply andb_true_iff in H. destruct H as [H H3]. apply andb_true_iff in H. destruct H as [H1 H2].
  cbv zeta. split; [|split; assumption].
  unfold quiescent_b in H1.
  destruct (succs (sys_of sc_blocked_stays) (exec (sys_of sc_blocked_stays) w_reader_remains));
    [reflexivity|discriminate].
Qed.

(* no unsynchronised access to shared connection state: the fixed code has none left (channels,
   sync.Once, the mutex), so the model has no plain-access instruction and no state is racy *)
Theorem C07_race_free : forall sc s, races (sys_of sc) s = false.
Proof. exact race_free. Qed.
Theorem C07_no_plain_access : forall sc, no_plain (sys_of sc) = true.
Proof. exact fixed_no_plain. Qed.

(* the System transport (transport/system.go, current code): the field `fd` is loaded by
   System.Read and assigned by System.Close, and the forced Transport.Close(true) runs System.Close
   without implLock; the accesses are guarded by the mutex fdLock (getFd / setFd).  [system_sys]
   keeps them as plain-access instructions inside Lock/Unlock: no reachable state co-enables two of
   them, for one or two Close calls, graceful and forced, every transport-close behaviour — and
   nothing panics, Close can always return, a returned Close has closed the file *)
Theorem C07_system_race_free : forall second tc (sched : sched),
  races (system_sys tc second) (exec (system_sys tc second) sched) = false /\
  panic (exec (system_sys tc second) sched) = 0.
Proof. exact system_race_free. Qed.

Theorem C07_system_close_completes : forall second tc (sched : sched),
  (exists sched', system_returned second tc (exec (system_sys tc second) (sched ++ sched')) = true) /\
  (p_system_closed second (exec (system_sys tc second) sched) = true).
Proof. exact system_close_completes. Qed.

(* (not vacuous: the plain accesses are in the model) *)
Theorem C07_system_has_plain_accesses : forall second tc, no_plain (system_sys tc second) = false.
Proof. exact system_has_plain. Qed.

(* ---------- the code before the repairs e29178e and 985cf8a: refuted ---------- *)

(* before e29178e sendRPC's polling goroutine could be left blocked forever on `done <- data`
   (reply found while the waiter leaves through its timer or d.errs); with and without a Close *)
Theorem C07_prefix_poller_refuted :
  goal_poller_stranded (exec (prefix_sys_of sc_rpc) w_poller_stranded) = true /\
  goal_poller_stranded_noclose (exec (prefix_sys_of sc_rpc) w_poller_stranded_noclose) = true.
Proof.
  split; [exact prefix_rpc_poller_can_be_stranded
         |exact prefix_rpc_poller_can_be_stranded_without_close].
Qed.

(* before 985cf8a System.Close assigned the plain field `fd` that System.Read loads, in the forced
   path without any lock: a data race (witness); it was the only one and needed the forced path *)
Theorem C07_prefix_system_fd_race :
  races sys_fd1 (exec sys_fd1 w_fd_race) = true /\
  forall second tc (sched : sched),
    let s := exec (prefix_system_sys tc second) sched in
    panic s = 0 /\
    (races (prefix_system_sys tc second) s = true ->
     pc_of s T_CLOSER1 = 8 \/ pc_of s T_CLOSER2 = 8).
Proof. split; [exact prefix_system_fd_race|exact prefix_system_fd_race_only_forced]. Qed.

(* ---------- the original code (cc33fde): refuted, with witness schedules ---------- *)

Theorem C07_old_refuted_second_close :
  panic (exec (old_sys_of osc_second) ow_second) = PANIC_CLOSE_OF_CLOSED.
Proof. exact old_second_close_panics. Qed.

Theorem C07_old_refuted_send_on_closed :
  panic (exec (old_sys_of osc_ioerr) ow_ioerr) = PANIC_SEND_ON_CLOSED.
Proof. exact old_close_with_error_pending_panics. Qed.

Theorem C07_old_refuted_race :
  races (old_sys_of osc_race) (exec (old_sys_of osc_race) ow_race) = true /\
  ogoal_race_read (exec (old_sys_of osc_race_read) ow_race_read) = true.
Proof. split; [exact old_flag_race_close|exact old_flag_race_read]. Qed.

Theorem C07_old_refuted_stranded_sender :
  ogoal_stranded (exec (old_sys_of osc_race) ow_stranded) = true.
Proof. exact old_done_sender_stranded. Qed.

Theorem C07_old_refuted_netconf_close_blocks :
  ogoal_nc_blocked (exec (old_sys_of osc_nc_eof) ow_nc_eof) = true /\
  ogoal_nc_second_blocked (exec (old_sys_of osc_nc_second) ow_nc_second) = true.
Proof.
  split; [exact old_netconf_close_blocks_forever|exact old_netconf_second_close_blocks_forever].
Qed.

Print Assumptions C07_model_matches_source.
Print Assumptions C07_no_panic.
Print Assumptions C07_close_never_stuck.
Print Assumptions C07_transport_closed.
Print Assumptions C07_graceful_close_after_reader_exit.
Print Assumptions C07_no_leak.
Print Assumptions C07_no_leak_live.
Print Assumptions C07_no_leak_blocking.
Print Assumptions C07_reader_remains_if_read_stays_blocked.
Print Assumptions C07_race_free.
Print Assumptions C07_no_plain_access.
Print Assumptions C07_system_race_free.
Print Assumptions C07_system_close_completes.
Print Assumptions C07_system_has_plain_accesses.
Print Assumptions C07_prefix_poller_refuted.
Print Assumptions C07_prefix_system_fd_race.
Print Assumptions C07_old_refuted_second_close.
Print Assumptions C07_old_refuted_send_on_closed.
Print Assumptions C07_old_refuted_race.
Print Assumptions C07_old_refuted_stranded_sender.
Print Assumptions C07_old_refuted_netconf_close_blocks.

(* ---------- state counts and witnesses (informative output) ---------- *)

Eval vm_compute in length scenarios.

Eval vm_compute in
  map (fun b2 => map (fun tc => (N.of_nat (length (system_reach b2 tc)),
                                 N.of_nat (length (psystem_reach b2 tc)))) all_tcs) all_bools.

(* the original code: (states, panic states, racy states, quiescent states with a thread left) *)
Eval vm_compute in
  map old_census [ mkSc CLI StAny TcEOF false false; mkSc CLI StAny TcEOF true true;
                   mkSc NETCONF StAny TcEOF false false; mkSc NETCONF StAny TcEOF true false ].

From Coq Require Import String.
Open Scope string_scope.
Eval vm_compute in show_sched (sys_of sc_blocked_stays) w_reader_remains.
Eval vm_compute in show_sched (prefix_sys_of sc_rpc) w_poller_stranded.
Eval vm_compute in show_sched (prefix_sys_of sc_rpc) w_poller_stranded_noclose.
(* the crypto/ssh transport's Close as translated: the connection is closed whether or not closing
   the session failed (F31), the error returned is the client's, else the session's *)
From Scrapli Require Import DecideLang StdCloseSrc.
Theorem C07_std_close_is_source : std_close_ok = true.
Proof. exact std_close_is_source. Qed.
Print Assumptions C07_std_close_is_source.
Eval vm_compute in show_sched sys_fd1 w_fd_race.
Eval vm_compute in show_sched (old_sys_of osc_second) ow_second.
Eval vm_compute in show_sched (old_sys_of osc_ioerr) ow_ioerr.
Eval vm_compute in show_sched (old_sys_of osc_race) ow_race.
Eval vm_compute in show_sched (old_sys_of osc_race_read) ow_race_read.
Eval vm_compute in show_sched (old_sys_of osc_race) ow_stranded.
Eval vm_compute in show_sched (old_sys_of osc_nc_eof) ow_nc_eof.
Eval vm_compute in show_sched (old_sys_of osc_nc_second) ow_nc_second.

(* Channel.read / Read / ReadAll as translated (the whole trace of a round compared with the model's):
   the read loop notices a stopped channel before the transport is read and again after a failed read, and never hands an error over once stopped *)
From Scrapli Require Import ChanReadSrc.
Theorem C07_chan_read_round_is_source : chan_read_table_ok = true.
Proof. exact chan_read_round_is_source. Qed.
Print Assumptions C07_chan_read_round_is_source.
