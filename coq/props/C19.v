(* C19 — Driver options land on their target regardless of order; user options win.
   Property theorems only; proofs in theories/OptionsLemmas.v, model in theories/Options.v.

   Vocabulary.  [build k opts] is generic/network/netconf.NewDriver on the option list [opts];
   [get f s] the value of setting [f]; [vals f opts] the values the options of [opts] give to [f],
   in list order ([names o f]: option [o] assigns [f]); [lastv l d] the last element of [l], else
   [d]; [ctx_of k opts] says which objects the construction creates (it depends on the options:
   the LAST valid WithTransportType and WithCustomTransport decide whether SSHArgs / System /
   Standard / File exist); [derived k f]: the constructor computes [f] itself (network: the prompt
   pattern is the joined privilege patterns; NETCONF: prompt pattern and NetconfConnection; the NETCONF
   driver's Logger follows WithLogger since the fix of C19:netconf-logger-dropped) — WithPromptPattern is overridden there, which is what the code documents. *)
From Scrapli Require Import Bytes Regex PlatformTypes Generated Options OptionsLemmas DecideLang GeneratedSkel OptionsSrc OptionsSrcOk.

(* the model has exactly one constructor per `With*` function of driver/options (names generated
   from the source on every run), and one case per option name of platform/options.go *)
Theorem C19_inventory : check_inventory = true /\ check_platform_inventory = true
  /\ forall o, mem_bytes (opt_name o) modelled_constructors = true.
Proof. exact (conj check_inventory_true (conj check_platform_inventory_true opt_samples_complete)). Qed.

(* a construction succeeds exactly when every option is valid where it applies (and a network
   driver got privilege levels), and then its settings are the fold of the list, in list order,
   over the objects that exist, plus the derived settings *)
Theorem C19_build_closed_form : forall k opts s,
  build k opts = Ok s <-> valid k opts = true /\ s = spec k opts.
Proof. exact build_ok_iff. Qed.

Theorem C19_build_is_one_fold : forall k opts s, build k opts = Ok s <-> build_flat k opts = Ok s.
Proof. exact flat_agree. Qed.

Theorem C19_no_panic : forall k opts, build k opts <> Panic.
Proof. exact build_no_panic. Qed.

(* when the same setting is given twice the later one wins; else the default *)
Theorem C19_last_wins : forall k opts s f, build k opts = Ok s ->
  derived k f = false -> f <> FL FExtraArgs -> exists_obj (ctx_of k opts) (field_obj f) = true ->
  get f s = lastv (vals f opts) (get f defaults).
Proof. exact last_wins. Qed.

(* the additive option (extra ssh arguments) accumulates in order.  In the code this is the ONLY
   additive option: WithLogger replaces the logging instance and the standard transport's extra
   ciphers / kexs are assigned (both covered by C19_last_wins). *)
Theorem C19_additive : forall k opts s, build k opts = Ok s ->
  exists_obj (ctx_of k opts) OSystem = true ->
  get (FL FExtraArgs) s = VL (lists_of (vals (FL FExtraArgs) opts)).
Proof. exact additive. Qed.

(* an option takes effect on nothing else: a setting no option of the list names keeps its default *)
Theorem C19_frame : forall k opts s f, build k opts = Ok s -> derived k f = false ->
  vals f opts = [] -> get f s = get f defaults.
Proof. exact frame. Qed.

Theorem C19_absent_object : forall k opts s f, build k opts = Ok s -> derived k f = false ->
  exists_obj (ctx_of k opts) (field_obj f) = false -> get f s = get f defaults.
Proof. exact absent_default. Qed.

(* position: swapping two adjacent options that name different settings changes nothing *)
Theorem C19_perm : forall k l1 a b l2 s, disjoint a b ->
  build k (l1 ++ a :: b :: l2) = Ok s -> build k (l1 ++ b :: a :: l2) = Ok s.
Proof. exact perm. Qed.
Theorem C19_perm_fails : forall k l1 a b l2, disjoint a b ->
  (exists e, build k (l1 ++ a :: b :: l2) = Err e) -> exists e, build k (l1 ++ b :: a :: l2) = Err e.
Proof. exact perm_fails. Qed.

(* an invalid value is rejected whatever its position; with a bad-option error unless an option of
   the list fails with util.ErrFileNotFoundError (WithSSHConfigFile / WithSSHKnownHostsFile on a
   missing file — the code does not use ErrBadOption there) *)
Theorem C19_invalid_anywhere : forall k l1 o l2,
  opt_fail (ctx_of k (l1 ++ o :: l2)) o <> None -> exists e, build k (l1 ++ o :: l2) = Err e.
Proof. exact invalid_anywhere. Qed.
Theorem C19_invalid_is_badoption : forall k opts e, build k opts = Err e ->
  (forall o, In o opts -> opt_fail (ctx_of k opts) o <> Some EFileNotFound) -> e = EBadOption.
Proof. exact invalid_is_badoption. Qed.

(* options whose target object the construction does not create are ignored without error: the
   result (settings or error) is that of the list without them *)
Theorem C19_ignored_no_error : forall k l1 o l2,
  pre_ok o = true -> exists_obj (ctx_of k (l1 ++ o :: l2)) (opt_target o) = false ->
  build k (l1 ++ o :: l2) = build k (l1 ++ l2).
Proof. exact ignored_no_error. Qed.
Theorem C19_ignored_foreign : forall k l1 o l2, pre_ok o = true -> foreign k (opt_target o) = true ->
  build k (l1 ++ o :: l2) = build k (l1 ++ l2).
Proof. exact ignored_foreign. Qed.

(* derived settings, as they are *)
Theorem C19_derived_network : forall opts s, build Network opts = Ok s ->
  get (FS FPromptPattern) s = VS (join [BAR] (getL FPrivilegeLevels s)).
Proof. exact derived_network. Qed.
Theorem C19_derived_netconf : forall opts s, build Netconf opts = Ok s ->
  get (FS FPromptPattern) s = VS rx_ncd_v1Dot0Delim_src
  /\ (exists_obj (ctx_of Netconf opts) OSSHArgs = true -> get (FB FNetconfConnection) s = VB true).
Proof. exact derived_netconf. Qed.

(* platform options first, user options after: the user's value wins *)
Theorem C19_user_over_platform : forall k plat user s f, build k (plat ++ user) = Ok s ->
  derived k f = false -> f <> FL FExtraArgs -> exists_obj (ctx_of k (plat ++ user)) (field_obj f) = true ->
  vals f user <> [] -> forall d, get f s = lastv (vals f user) d.
Proof. exact user_wins. Qed.
Theorem C19_user_after_platform_additive : forall k plat user s, build k (plat ++ user) = Ok s ->
  exists_obj (ctx_of k (plat ++ user)) OSystem = true ->
  get (FL FExtraArgs) s = VL (lists_of (vals (FL FExtraArgs) plat) ++ lists_of (vals (FL FExtraArgs) user)).
Proof. exact user_after_platform_additive. Qed.

(* the NETCONF driver's logger is the one given with WithLogger / WithDefaultLogger (last wins) *)
Theorem C19_netconf_logger : forall opts s, build Netconf opts = Ok s ->
  get (FN FLogger) s = lastv (vals (FN FLogger) opts) (VN 0).
Proof. intros opts s H. exact (last_wins Netconf opts s (FN FLogger) H eq_refl ltac:(discriminate) eq_refl). Qed.

(* every recognised platform option name with a value of its documented YAML type becomes an
   option without panic (transport-system-open-args included, since the fix of finding F12) *)
Theorem C19_platform_typed : forall defs,
  (forall d, In d defs -> In (fst d) modelled_platform_options /\ well_typed d = true) ->
  exists os, platform_options defs = Ok os /\ length os = length defs.
Proof. exact platform_typed_ok. Qed.
Theorem C19_platform_open_args : forall l,
  platform_option open_args_name (YSeq l) = Ok (WithSystemTransportOpenArgs l).
Proof. exact (proj2 (proj2 (proj2 (proj2 (proj2 (proj2 platform_option_effect)))))). Qed.

(* what still panics there: any value that is not a sequence of strings *)
Theorem C19_platform_open_args_illtyped : forall p user v, In (open_args_name, v) (pd_options p) ->
  (forall l, v <> YSeq l) -> build_platform p user = Panic.
Proof. exact platform_open_args_illtyped_panics. Qed.

(* THE TIE BY TRANSLATION: the closure of EVERY option constructor of driver/options, as the source
   has it on this run (GeneratedSkel.option_code), asserts exactly the object [opt_target] names;
   returns util.ErrIgnoredOption having assigned and called nothing when the assertion fails;
   assigns exactly the fields of [opt_writes], in order, additively exactly for the additive
   option, and returns nil when it holds; and assigns nothing and returns an error when its value
   check fails (whatever the object, for the options that check before asserting).
   (OptionsSrc.option_src_ok; one sample per constructor, names tied to the source's inventory by
   C19_inventory and to the model's constructors by opt_samples_complete.) *)
Theorem C19_options_are_source : options_src_ok = true.
Proof. exact options_src_ok_true. Qed.

(* each of the eight loops that apply an option list to an object (generic / network / NETCONF
   NewDriver, NewTransport, NewArgs, NewSSHArgs, NewTelnetArgs, NewChannel), as the source has it on
   this run: for EVERY list of closure outcomes (applied / ignored / failed) the closures are called
   in list order; the first one that fails with anything but the ignored sentinel ends the
   construction with its error and no later closure is called; otherwise all are called.
   [C19_pass_first_failed]: the model's loop [pass] fails exactly in that case. *)
Theorem C19_option_loops_are_source : forall e, In e option_loops ->
  forall outs, exists lst,
  match first_failed outs 0 with
  | Some j => exists st', DecideLang.exec 10 (loop_env outs lst) [snd e] []%list = Returned st' "nil, err"%string /\ napplied st' = S j
  | None => exists st', DecideLang.exec 10 (loop_env outs lst) [snd e] []%list = Running st' /\ napplied st' = length outs
  end.
Proof. exact option_loops_are_source. Qed.

Theorem C19_pass_first_failed : forall ob opts s,
  match first_failed (map (outcome_of ob) opts) 0 with
  | Some _ => forall s', pass ob opts s <> Ok s'
  | None => exists s', pass ob opts s = Ok s'
  end.
Proof. exact pass_first_failed. Qed.

Print Assumptions C19_inventory.
Print Assumptions C19_build_closed_form.
Print Assumptions C19_build_is_one_fold.
Print Assumptions C19_no_panic.
Print Assumptions C19_last_wins.
Print Assumptions C19_additive.
Print Assumptions C19_frame.
Print Assumptions C19_absent_object.
Print Assumptions C19_perm.
Print Assumptions C19_perm_fails.
Print Assumptions C19_invalid_anywhere.
Print Assumptions C19_invalid_is_badoption.
Print Assumptions C19_ignored_no_error.
Print Assumptions C19_ignored_foreign.
Print Assumptions C19_derived_network.
Print Assumptions C19_derived_netconf.
Print Assumptions C19_user_over_platform.
Print Assumptions C19_user_after_platform_additive.
Print Assumptions C19_platform_typed.
Print Assumptions C19_netconf_logger.
Print Assumptions C19_platform_open_args.
Print Assumptions C19_platform_open_args_illtyped.
Print Assumptions C19_options_are_source.
Print Assumptions C19_option_loops_are_source.
Print Assumptions C19_pass_first_failed.

(* every test that the translated functions of this property make is one the environments of their
   ties were written for: a test that is new in the source breaks this (an unknown equality would
   otherwise evaluate to false without notice) *)
From Scrapli Require Import DecideLang GeneratedSkel OptionsSrcOk.
Theorem C19_source_tests_known :
  tests_known (flat_map (fun e => snd e) GeneratedSkel.option_code) options_known = true.
Proof. exact options_tests_known. Qed.
Print Assumptions C19_source_tests_known.
