(* C12 — Interactive dialogues are paced by the device; secrets go only to their prompt.
   Property theorems only; proofs in theories/ChanTraceLemmas.v. *)
From Scrapli Require Import Bytes BytesLemmas Regex PlatformTypes Generated Channel Network Session SessionLemmas ChanTrace ChanTraceLemmas.

(* every execution's writes/notes/outcome are those of a program path *)
Theorem C12_traces_cover_executions : forall (D : Type) (feed : D -> bytes -> D * bytes) (cfg : chan_cfg) (R : Type) (p : prog R) (d : D) (start : bytes) (sched : list ev), let st := run feed cfg sched (init_sys d start p) in exists t : list obs, ptrace cfg p t /\ s_wlog st = writes_of t /\ s_notes st = notes_of t /\ (forall r : R + err, outcome st = Some r -> ctrace cfg p t r).
Proof. exact @run_has_trace. Qed.

(* the path of an interactive send has the shape: input, (echo read unless hidden / no response), return, read until the expected response or a completion pattern, next event ... — each input is written only after that read returned *)
Theorem C12_paced : forall (cfg : chan_cfg) (evs : list ievent) (o : op_opts) (t : list obs), ptrace cfg (send_interactive cfg evs o) t -> ia_shape cfg o evs t.
Proof. exact @interactive_paced. Qed.

(* a plain command's return is written only after the echo read returned *)
Theorem C12_return_after_echo : forall (cfg : chan_cfg) (input : list N) (o : op_opts) (t t1 : list obs) (r : bool) (t2 : list obs), o_eager o = false -> input <> [] -> ptrace cfg (send_input cfg input o) t -> t = t1 ++ OWrite (c_ret cfg) r :: t2 -> t1 <> [] -> exists rb : bytes, t1 = [OWrite input false; ORead (echo_cond o input) rb].
Proof. exact @return_after_echo. Qed.

(* shape of SendInput paths *)
Theorem C12_send_input_shape : forall (cfg : chan_cfg) (input : list N) (o : op_opts) (t : list obs), o_eager o = false -> input <> [] -> ptrace cfg (send_input cfg input o) t -> (exists rb1 rb2 : bytes, prefix_of t [OWrite input false; ORead (echo_cond o input) rb1; OWrite (c_ret cfg) false; ORead (prompt_cond cfg o) rb2]) \/ (exists e : err, t = [OWrite input false; OErr (echo_cond o input) e]) \/ (exists (rb1 : bytes) (e : err), t = [OWrite input false; ORead (echo_cond o input) rb1; OWrite (c_ret cfg) false; OErr (prompt_cond cfg o) e]).
Proof. exact @send_input_return_after_echo. Qed.

(* the secondary secret is written (redacted) only directly after a read on which the escalation prompt or a completion pattern matched the search window and no completion pattern matched the buffer *)
Theorem C12_secret_guarded_window : forall (net : netcfg) (target : bytes) (p : level) (t : list obs), lookup_level (n_levels net) target = Some p -> lv_escalate_auth p = true -> n_secondary net <> [] -> n_secondary net <> lv_escalate p -> n_secondary net <> c_ret (n_chan net) -> ptrace (n_chan net) (escalate net target) t -> guard_okP (n_secondary net) (armed_window (n_chan net) (lv_escalate_prompt p) (escalate_complete net p)) false t.
Proof. exact @escalate_guarded_partial. Qed.

(* ... and, when completion patterns that match the window also match the buffer, only after the escalation password prompt itself *)
Theorem C12_secret_guarded : forall (net : netcfg) (target : bytes) (p : level) (t : list obs), lookup_level (n_levels net) target = Some p -> lv_escalate_auth p = true -> n_secondary net <> [] -> n_secondary net <> lv_escalate p -> n_secondary net <> c_ret (n_chan net) -> (forall (r : re) (rb : bytes), In r (escalate_complete net p) -> rx_match r (process_read_buf rb (c_depth (n_chan net))) = true -> rx_match r rb = true) -> ptrace (n_chan net) (escalate net target) t -> guard_ok (n_chan net) (n_secondary net) (lv_escalate_prompt p) (escalate_complete net p) false t.
Proof. exact @escalate_guarded. Qed.

(* consequence: if the device grants or refuses without asking, the secret is never typed *)
Theorem C12_secret_only_at_prompt : forall (net : netcfg) (target : bytes) (p : level) (t t1 : list obs) (r : bool) (t2 : list obs), lookup_level (n_levels net) target = Some p -> lv_escalate_auth p = true -> n_secondary net <> [] -> n_secondary net <> lv_escalate p -> n_secondary net <> c_ret (n_chan net) -> (forall (r0 : re) (rb : bytes), In r0 (escalate_complete net p) -> rx_match r0 (process_read_buf rb (c_depth (n_chan net))) = true -> rx_match r0 rb = true) -> ptrace (n_chan net) (escalate net target) t -> t = t1 ++ OWrite (n_secondary net) r :: t2 -> r = true /\ (exists (t0 : list obs) (c : cond) (rb : bytes) (ns : list obs), t1 = t0 ++ ORead c rb :: ns /\ Forall is_note ns /\ rx_match (lv_escalate_prompt p) (process_read_buf rb (c_depth (n_chan net))) = true /\ existsb (fun q : re => rx_match q rb) (escalate_complete net p) = false).
Proof. exact @escalate_secret_only_at_prompt. Qed.

(* (why the hypothesis is needed: a completion pattern matching only the window arms the write) *)
Theorem C12_window_refuted : ~ (forall (net : netcfg) (target : bytes) (p : level) (t : list obs), lookup_level (n_levels net) target = Some p -> lv_escalate_auth p = true -> n_secondary net <> [] -> n_secondary net <> lv_escalate p -> n_secondary net <> c_ret (n_chan net) -> ptrace (n_chan net) (escalate net target) t -> guard_ok (n_chan net) (n_secondary net) (lv_escalate_prompt p) (escalate_complete net p) false t).
Proof. exact @escalate_guarded_refuted. Qed.

(* THE TIE BY TRANSLATION for the search window: channel/read.go processReadBuf as the source has
   it on this run is, for every buffer and every search depth, the model's process_read_buf — the
   whole buffer when it is not longer than the depth, else its last [sd] bytes, cut at the first
   line feed when that is not at index 0 *)
From Scrapli Require Import DecideLang GeneratedSkel WindowSrc SendInputSrc.
Theorem C12_process_read_buf_is_source : forall rb sd,
  exists w, prb_run (Nat.leb (length rb) sd)
                    (match lf_index_pos (tail_of rb sd) with Some _ => true | None => false end) = Some w
            /\ process_read_buf rb sd = window_of rb sd w.
Proof. exact process_read_buf_is_source. Qed.

Print Assumptions C12_traces_cover_executions.
Print Assumptions C12_paced.
Print Assumptions C12_return_after_echo.
Print Assumptions C12_send_input_shape.
Print Assumptions C12_secret_guarded_window.
Print Assumptions C12_secret_guarded.
Print Assumptions C12_secret_only_at_prompt.
Print Assumptions C12_window_refuted.

(* ---- "the result contains the whole dialogue" (InteractiveLemmas) ---- *)
From Scrapli Require Import InteractiveLemmas.

(* a successful interactive send returns processOut of EVERYTHING its read-untils returned, in order
   (echo reads included; the strip-prompt option does not apply, as in Go); a failed one returns
   the error of the read-until that was handed it and no partial dialogue *)
Theorem C12_result_whole : forall cfg evs o t out,
  ctrace cfg (send_interactive cfg evs o) t out ->
  match out with
  | inl r => existsb is_err t = false /\ r = process_out cfg (concat (read_bufs t)) false
  | inr e => exists t0 c, t = t0 ++ [OErr c e] /\ existsb is_err t0 = false
  end.
Proof. exact interactive_outcome. Qed.

(* a plain send: exactly the command, then the return, are written; the result is processOut of the
   bytes of the prompt read (the echo read's bytes are consumed and discarded) *)
Theorem C12_send_input_result : forall cfg cmd o t r,
  ctrace cfg (send_input cfg cmd o) t (inl r) ->
  writes_of t = [(cmd, false); (c_ret cfg, false)] /\
  r = process_out cfg (if o_eager o then [] else last (read_bufs t) []) (o_strip o).
Proof. exact send_input_result. Qed.

Theorem C12_get_prompt_result : forall cfg t r,
  ctrace cfg (get_prompt cfg) t (inl r) ->
  exists rb, t = [OWrite (c_ret cfg) false; ORead CPrompt rb]
             /\ cond_holds cfg CPrompt rb = true
             /\ writes_of t = [(c_ret cfg, false)]
             /\ read_bufs t = [rb]
             /\ r = match rx_find (c_prompt cfg) rb with Some p => p | None => [] end.
Proof. exact get_prompt_result. Qed.

Print Assumptions C12_result_whole.
Print Assumptions C12_send_input_result.
Print Assumptions C12_get_prompt_result.
Print Assumptions C12_process_read_buf_is_source.

(* THE TIE BY TRANSLATION for the interactive send: channel/sendinteractive.go as the source has it
   on this run — a range loop over the events with a nested loop over the completion patterns and
   two breaks, translated statement by statement — invokes, when every primitive succeeds, exactly
   the primitives the model's interactive_loop invokes: which event's input is written and with
   which redaction flag, whether its echo is read (only a visible input with an expected response),
   the return, the prompt read with the completion patterns followed by the event's response or the
   channel's prompt, early completion between events, and the result.  For EVERY event list, every
   operation options and every sequence of read results. *)
From Scrapli Require Import DecideLemmas InteractiveSrcDefs InteractiveSrc InteractiveSrcModel InteractiveTie.
Theorem C12_interactive_is_source : forall cfg o events reads acc,
  exists acts,
    si_run (length (o_complete o)) (msev o events reads) = Some acts
    /\ pacts (interactive_loop cfg o events acc) reads = flat_map (act_pacts cfg o events) acts.
Proof. exact interactive_source_meets_model. Qed.
Print Assumptions C12_interactive_is_source.

(* THE TIE BY TRANSLATION for Channel.SendInputB: the function as the source has it on this run (its
   goroutine inline), run for every combination of its option tests and for a failure of either
   read (deadline or loss), invokes the primitives and returns the class of result that the model's
   send_input does — write, echo read (fuzzy or exact), return, prompt read (plain or with the
   interim patterns) unless eager, result; a deadline at a read yields the timeout error, a loss
   the transport's own error, and nothing is invoked after the failing read — for EVERY
   configuration, input, options and sequence of read outcomes. *)
From Scrapli Require Import DecideLang GeneratedSkel InteractiveSrcDefs WindowSrc SendInputSrc.
Theorem C12_send_input_is_source :
  sin_table_ok = true
  /\ forall cfg input o rds,
       mrun (send_input cfg input o) rds
       = (flat_map (sact_pacts cfg input o) (fst (sin_expected (o_exact o) (o_eager o) (is_nil (o_interim o)) (fail_src o input rds))),
          snd (sin_expected (o_exact o) (o_eager o) (is_nil (o_interim o)) (fail_src o input rds))).
Proof. exact send_input_is_source. Qed.
Print Assumptions C12_send_input_is_source.

(* every test that the translated functions of this property make is one the environments of their
   ties were written for: a test that is new in the source breaks this (an unknown equality would
   otherwise evaluate to false without notice) *)
From Scrapli Require Import DecideLang GeneratedSkel SendInputSrc.
Theorem C12_source_tests_known :
  tests_known send_input_code send_input_known = true /\
  window_tests_known = true.
Proof. split; [exact send_input_tests_known | exact window_tests_known_true]. Qed.
Print Assumptions C12_source_tests_known.

(* the window in which an echo is searched: getProcessReadBufSearchDepth as the source has it is the
   model's search_depth, for every prompt search depth and every input length *)
Theorem C12_search_depth_is_source : forall psd ilen,
  let gt := Nat.ltb psd (input_search_depth_multiplier * ilen)%nat in
  sd_run gt = Some gt
  /\ search_depth psd ilen = if gt then (input_search_depth_multiplier * ilen)%nat else psd.
Proof. exact search_depth_is_source. Qed.
Print Assumptions C12_search_depth_is_source.

(* THE TIE BY TRANSLATION for the read-until functions (ReadUntilFuzzy / Explicit / Prompt / AnyPrompt
   as the source has them on this run): the early return for an empty input, and one round of each
   loop for every combination of what can happen in it — the deadline is looked at FIRST, a read
   error is passed on as it is, an empty read sleeps and goes round, a chunk is appended to
   everything read, and the round returns EVERYTHING READ exactly when the function's own condition
   (its source text is pinned: the model's cond_holds for CFuzzy / CExplicit / CPrompt, on the
   search window of everything read) holds; for ReadUntilAnyPrompt, for every number of patterns
   and every pattern of matches, exactly when SOME pattern matches that window. *)
From Scrapli Require Import DecideLang DecideLemmas GeneratedSkel ReadUntilSrc.
Theorem C12_read_until_is_source :
  ru_table_ok = true
  /\ forall done read_ok nb_nil ms,
       any_run done read_ok nb_nil ms = ru_expected false false done read_ok nb_nil (existsb (fun x => x) ms).
Proof. split; [exact read_until_is_source | exact read_until_any_is_source]. Qed.
Print Assumptions C12_read_until_is_source.
