(* C01 — CLI exchanges return exactly the device's output, aligned per command.
   Property theorems only; proofs in theories/SessionLemmas.v.

   The system: [Channel.run] interprets the programs transcribed from channel/sendinput.go,
   read.go, driver/generic/sendcommand(s).go over an ARBITRARY schedule of events — [Rd n]: the
   reader obtains n bytes (any cut of the device stream, 1 byte .. everything pending) and enqueues
   them as one normalised chunk; [Op]: the operation takes one step (a write, or one chunk) — so
   every segmentation into reads and every relative timing of reader and operation is a schedule.
   The device is its script of reactions; [session_ok] is the decidable form of the property's own
   preconditions (per exchange: the echo condition first holds when the whole echo has been read,
   for every stale tail left by the previous exchange; the prompt condition is false on every
   proper prefix of the response short of the prompt and true from there on; every admissible exit
   point post-processes to the specified result), evaluated by the engine on concrete instances
   and on generated cases.  Escape sequences are excluded from these theorems (hypothesis
   [mem_byte 27 = false]): their removal is covered by the correspondence runs only. *)
From Scrapli Require Import Bytes BytesLemmas Regex PlatformTypes Generated Channel Session SessionLemmas.

(* Whatever the schedule: the results delivered so far are exactly the specified ones, in order
   and aligned with their commands; the device has been sent exactly a prefix of
   cmd1, return, cmd2, return, ...; no error arises; a finished session returned every result. *)
Theorem C01_cli_alignment : forall cfg o start xs sched,
  fault_free sched = true -> mem_byte 27 start = false ->
  session_ok cfg o [drop_cr start] xs = true ->
  let st := run sfeed cfg sched (session_sys cfg o start xs) in
  exists k w, (k <= length xs)%nat /\ (2 * k <= w <= 2 * k + 2)%nat /\ (w <= 2 * length xs)%nat /\
    s_notes st = map (fun x => (TAG_RESULT, x_result x)) (firstn k xs) /\
    s_wlog st = firstn w (expected_writes cfg (map x_cmd xs)) /\
    (forall e, outcome st <> Some (inr e)) /\
    (forall r, outcome st = Some (inl r) -> k = length xs /\ r = map x_result xs).
Proof. exact session_safe. Qed.

(* ... and no reachable state is stuck: every schedule can be extended to one that completes the
   session with exactly the specified results (so every fair schedule finishes). *)
Theorem C01_progress : forall cfg o start xs sched,
  fault_free sched = true -> mem_byte 27 start = false ->
  session_ok cfg o [drop_cr start] xs = true ->
  exists sched', fault_free sched' = true /\
    outcome (run sfeed cfg (sched ++ sched') (session_sys cfg o start xs)) = Some (inl (map x_result xs)).
Proof. exact session_live. Qed.

(* consequence: any two completed fault-free schedules give the same results *)
Corollary C01_schedule_independent : forall cfg o start xs s1 s2 r1 r2,
  fault_free s1 = true -> fault_free s2 = true -> mem_byte 27 start = false ->
  session_ok cfg o [drop_cr start] xs = true ->
  outcome (run sfeed cfg s1 (session_sys cfg o start xs)) = Some (inl r1) ->
  outcome (run sfeed cfg s2 (session_sys cfg o start xs)) = Some (inl r2) -> r1 = r2.
Proof.
  intros cfg o start xs s1 s2 r1 r2 F1 F2 He Hs O1 O2.
  destruct (session_safe cfg o start xs s1 F1 He Hs) as (k1 & w1 & _ & _ & _ & _ & _ & _ & R1).
  destruct (session_safe cfg o start xs s2 F2 He Hs) as (k2 & w2 & _ & _ & _ & _ & _ & _ & R2).
  destruct (R1 _ O1) as [_ ->]. destruct (R2 _ O2) as [_ ->]. reflexivity.
Qed.

(* THE TIE BY TRANSLATION for the search window: channel/read.go processReadBuf as the source has
   it on this run is, for every buffer and every search depth, the model's process_read_buf — the
   whole buffer when it is not longer than the depth, else its last [sd] bytes, cut at the first
   line feed when that is not at index 0 *)
From Scrapli Require Import DecideLang GeneratedSkel WindowSrc SendInputSrc.
Theorem C01_process_read_buf_is_source : forall rb sd,
  exists w, prb_run (Nat.leb (length rb) sd)
                    (match lf_index_pos (tail_of rb sd) with Some _ => true | None => false end) = Some w
            /\ process_read_buf rb sd = window_of rb sd w.
Proof. exact process_read_buf_is_source. Qed.

Print Assumptions C01_cli_alignment.
Print Assumptions C01_progress.
Print Assumptions C01_schedule_independent.
Print Assumptions C01_process_read_buf_is_source.

(* THE TIE BY TRANSLATION for Channel.SendInputB: the function as the source has it on this run (its
   goroutine inline), run for every combination of its option tests and for a failure of either
   read (deadline or loss), invokes the primitives and returns the class of result that the model's
   send_input does — write, echo read (fuzzy or exact), return, prompt read (plain or with the
   interim patterns) unless eager, result; a deadline at a read yields the timeout error, a loss
   the transport's own error, and nothing is invoked after the failing read — for EVERY
   configuration, input, options and sequence of read outcomes. *)
From Scrapli Require Import DecideLang GeneratedSkel InteractiveSrcDefs WindowSrc SendInputSrc.
Theorem C01_send_input_is_source :
  sin_table_ok = true
  /\ forall cfg input o rds,
       mrun (send_input cfg input o) rds
       = (flat_map (sact_pacts cfg input o) (fst (sin_expected (o_exact o) (o_eager o) (is_nil (o_interim o)) (fail_src o input rds))),
          snd (sin_expected (o_exact o) (o_eager o) (is_nil (o_interim o)) (fail_src o input rds))).
Proof. exact send_input_is_source. Qed.
Print Assumptions C01_send_input_is_source.

(* every test that the translated functions of this property make is one the environments of their
   ties were written for: a test that is new in the source breaks this (an unknown equality would
   otherwise evaluate to false without notice) *)
From Scrapli Require Import DecideLang GeneratedSkel SendInputSrc.
Theorem C01_source_tests_known :
  tests_known send_input_code send_input_known = true /\
  window_tests_known = true.
Proof. split; [exact send_input_tests_known | exact window_tests_known_true]. Qed.
Print Assumptions C01_source_tests_known.

(* the window in which an echo is searched: getProcessReadBufSearchDepth as the source has it is the
   model's search_depth, for every prompt search depth and every input length *)
Theorem C01_search_depth_is_source : forall psd ilen,
  let gt := Nat.ltb psd (input_search_depth_multiplier * ilen)%nat in
  sd_run gt = Some gt
  /\ search_depth psd ilen = if gt then (input_search_depth_multiplier * ilen)%nat else psd.
Proof. exact search_depth_is_source. Qed.
Print Assumptions C01_search_depth_is_source.

(* THE TIE BY TRANSLATION for the read-until functions (ReadUntilFuzzy / Explicit / Prompt / AnyPrompt
   as the source has them on this run): the early return for an empty input, and one round of each
   loop for every combination of what can happen in it — the deadline is looked at FIRST, a read
   error is passed on as it is, an empty read sleeps and goes round, a chunk is appended to
   everything read, and the round returns EVERYTHING READ exactly when the function's own condition
   (its source text is pinned: the model's cond_holds for CFuzzy / CExplicit / CPrompt, on the
   search window of everything read) holds; for ReadUntilAnyPrompt, for every number of patterns
   and every pattern of matches, exactly when SOME pattern matches that window. *)
From Scrapli Require Import DecideLang DecideLemmas GeneratedSkel ReadUntilSrc.
Theorem C01_read_until_is_source :
  ru_table_ok = true
  /\ forall done read_ok nb_nil ms,
       any_run done read_ok nb_nil ms = ru_expected false false done read_ok nb_nil (existsb (fun x => x) ms).
Proof. split; [exact read_until_is_source | exact read_until_any_is_source]. Qed.
Print Assumptions C01_read_until_is_source.

(* Channel.read / Read / ReadAll as translated (the whole trace of a round compared with the model's):
   what a read delivers: the chunk normalised (carriage returns removed, then escape sequences when it has an ESC), enqueued, logged — one round of the read loop for all 512 combinations of what it can meet; Read and ReadAll *)
From Scrapli Require Import ChanReadSrc.
Theorem C01_chan_read_round_is_source : chan_read_table_ok = true.
Proof. exact chan_read_round_is_source. Qed.
Print Assumptions C01_chan_read_round_is_source.

(* Channel.processOut as translated: the steps of Channel.process_out and their order *)
From Scrapli Require Import ProcessOutSrc.
Theorem C01_process_out_is_source : process_out_src_ok = true.
Proof. exact process_out_is_source. Qed.
Print Assumptions C01_process_out_is_source.
