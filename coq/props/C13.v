(* C13 — Failure marking and stop-on-failed follow the configured failure strings.
   Property theorems only; proofs are in theories/GenericLemmas.v. *)
From Scrapli Require Import Bytes Generic GenericLemmas DecideLang GeneratedSkel DecideLemmas GenericSrc.

(* A response is marked failed exactly when its output contains one of the failure strings in
   force (hypothesis: the list holds no empty string — an empty string is contained in every
   output and Go's scan returns it as "no match"). *)
Theorem C13_failed_iff : forall cmd out fws, ~ In [] fws ->
  (is_failed (record cmd out fws) = true <-> exists s, In s fws /\ contains s out = true).
Proof. exact is_failed_record. Qed.

(* ... and the reported string is the first one in list order that occurs *)
Theorem C13_failed_first : forall out fws s, failed_with out fws = Some s ->
  exists pre post, fws = pre ++ s :: post /\ contains s out = true /\
                   Forall (fun x => contains x out = false) pre.
Proof. exact failed_with_some. Qed.

(* the strings in force: those of the operation, otherwise the driver's *)
Theorem C13_precedence : forall opf drvf,
  (opf <> [] -> effective_fws opf drvf = opf) /\ (opf = [] -> effective_fws opf drvf = drvf).
Proof. intros opf drvf; split; intros H; [destruct opf; [congruence|reflexivity] | now subst]. Qed.

(* a multi response is failed exactly when a member is, and lists exactly the failed members,
   in order *)
Theorem C13_multi : forall rs,
  multi_failed rs = filter is_failed rs /\
  (multi_failed rs <> [] <-> exists r, In r rs /\ is_failed r = true).
Proof. intros rs; split; [reflexivity | apply multi_failed_iff]. Qed.

(* without stop-on-failed every command is sent (one response per command, in order) *)
Theorem C13_nostop : forall opf drvf cmds, cmds <> [] ->
  exists rs, send_commands opf drvf false cmds = MOk rs /\
             rs = mk_resps (effective_fws opf drvf) cmds /\ map r_input rs = map fst cmds.
Proof.
  intros opf drvf cmds Hne. destruct cmds as [|p l]; [congruence|].
  eexists; split; [reflexivity|]. rewrite send_loop_nostop. split; [reflexivity | apply sent_inputs].
Qed.

(* with stop-on-failed the commands transmitted (= the responses) are exactly those up to and
   including the first failed one: a prefix of the list, no failure before its last element, and
   if it is a proper prefix its last element failed *)
Theorem C13_stop : forall opf drvf cmds, cmds <> [] ->
  exists rs, send_commands opf drvf true cmds = MOk rs /\
    let all := mk_resps (effective_fws opf drvf) cmds in
    rs = upto_first_failed all
    /\ (exists post, all = rs ++ post)
    /\ Forall (fun r => is_failed r = false) (removelast rs)
    /\ (length rs < length all -> exists r, last rs r = r /\ In r rs /\ is_failed r = true)%nat.
Proof.
  intros opf drvf cmds Hne. destruct cmds as [|p l]; [congruence|].
  eexists; split; [reflexivity|]. rewrite send_loop_stop. cbn zeta.
  split; [reflexivity|]. split; [apply upto_first_failed_prefix|]. apply upto_first_failed_shape.
Qed.

(* the collapsed config response reports the same *)
Theorem C13_collapse : forall rs,
  (collapse_failed rs = true <-> exists r, In r rs /\ is_failed r = true)
  /\ collapse_result rs = join NL (map r_result rs).
Proof. intros rs; split; [apply collapse_failed_iff | reflexivity]. Qed.

(* non-vacuity: a concrete 3-command run, failure in the middle, stop on *)
Example C13_nonvacuous :
  let fws := [bs "% Invalid"] in
  ~ In [] fws /\
  map r_input (match send_commands [] fws true
        [(bs "show a", bs "ok"); (bs "show b", bs "% Invalid input"); (bs "show c", bs "ok")]
      with MOk rs => rs | MNoOp => [] end) = [bs "show a"; bs "show b"].
Proof. split; [intros [H|[]]; discriminate H | vm_compute; reflexivity]. Qed.

(* THE TIE BY TRANSLATION (gen/decide.go -> GeneratedSkel.v, interpreted by DecideLang.exec):
   util.StringContainsAnySubStrs as the source has it on this run returns, for every string and
   every list (of any length: induction over the loop), what the model's scan returns; and
   Response.Record as the source has it marks the response failed exactly when the model does *)
Theorem C13_scan_is_source : forall s l, sc_run s l = Some (contains_any_substr s l).
Proof. exact contains_any_is_source. Qed.

Theorem C13_record_is_source : forall cmd out fws,
  rec_run (is_nilb (contains_any_substr out fws))
  = Some (match r_failed (record cmd out fws) with Some _ => true | None => false end).
Proof. exact record_is_source. Qed.

(* MultiResponse.AppendResponse as the source has it: appending any list of responses to an empty
   multi response leaves exactly those members, lists exactly the failed ones (in order) and sets
   the aggregate exactly when one of them failed *)
Theorem C13_append_is_source : forall l,
  ar_steps ([], [], false) l = Some (l, multi_failed l, collapse_failed l).
Proof. exact append_response_is_source. Qed.

(* Driver.SendCommands as the source has it: for every non-empty command list, every pattern of
   failed responses and stop-on-failed on or off, it transmits as many commands (an initial segment,
   by the shape of the loop) as the model's loop, appends one response per transmitted command, and
   returns the multi response; [C13_send_loop_count] reads the model's loop on the same flags *)
Theorem C13_send_commands_is_source : forall stop init l,
  let fl := (init ++ [l])%list in
  sc2_run stop fl = Some (loop_count stop fl, loop_count stop fl,
                          match fidx stop init 0 with Some _ => "m, err" | None => "m, nil" end)%string.
Proof. exact send_commands_is_source. Qed.

Theorem C13_send_loop_count : forall fws stop cmds,
  length (send_loop fws stop cmds)
  = loop_count stop (map (fun co => is_failed (record (fst co) (snd co) fws)) cmds).
Proof. exact send_loop_count. Qed.

(* Driver.sendCommand as the source has it creates the response with the driver's failure list
   exactly when the operation's is empty (and sends the input, records the output into that
   response and returns it) *)
Theorem C13_send_command_fws_is_source : forall opf drvf : list bytes,
  sc1_run (nilb opf) = Some (nilb opf)
  /\ effective_fws opf drvf = if nilb opf then drvf else opf.
Proof. exact send_command_fws_is_source. Qed.

(* network Driver.SendConfig as the source has it: for a multi response of any size n, the result
   of every member 0..n-1 is copied, in order, into the slice joined with newlines, and the
   aggregate failure is passed on unchanged *)
Theorem C13_send_config_is_source : forall n, cfg_run n = Some (seq 0 n).
Proof. exact send_config_is_source. Qed.

Print Assumptions C13_failed_iff.
Print Assumptions C13_failed_first.
Print Assumptions C13_precedence.
Print Assumptions C13_multi.
Print Assumptions C13_nostop.
Print Assumptions C13_stop.
Print Assumptions C13_collapse.
Print Assumptions C13_scan_is_source.
Print Assumptions C13_record_is_source.
Print Assumptions C13_append_is_source.
Print Assumptions C13_send_commands_is_source.
Print Assumptions C13_send_loop_count.
Print Assumptions C13_send_command_fws_is_source.
Print Assumptions C13_send_config_is_source.

(* every test that the translated functions of this property make is one the environments of their
   ties were written for: a test that is new in the source breaks this (an unknown equality would
   otherwise evaluate to false without notice) *)
From Scrapli Require Import DecideLang GeneratedSkel GenericSrc.
Theorem C13_source_tests_known :
  tests_known response_record_code response_record_known = true /\
  tests_known append_response_code append_response_known = true /\
  tests_known send_command_code send_command_known = true.
Proof. split; [exact response_record_tests_known | split; [exact append_response_tests_known | exact send_command_tests_known]]. Qed.
Print Assumptions C13_source_tests_known.
