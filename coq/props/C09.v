(* C09 — NETCONF session establishment negotiates the right version or fails cleanly.
   Property theorems only; proofs in theories/NcSessionLemmas.v. *)
From Scrapli Require Import Bytes BytesLemmas Regex PlatformTypes Generated Channel Netconf NetconfLemmas NcSession NcSessionLemmas.

(* the decision table, for ALL capability lists (any extras, order, duplicates) and preferences *)
Theorem C09_table : forall caps p,
  determine_version caps p = spec_version (has_cap ncd_v1dot0_cap caps) (has_cap ncd_v1dot1_cap caps) p.
Proof. exact version_table. Qed.

(* 1.1 exactly when the server advertises it and the user did not ask for 1.0 *)
Theorem C09_11_iff : forall caps p,
  determine_version caps p = Some V11 <-> (has_cap ncd_v1dot1_cap caps = true /\ p <> Pref10).
Proof. exact version_11_iff. Qed.

(* the client hello of the selected version advertises exactly that base capability (extracted with
   the library's own capability pattern) and is in end-of-message framing *)
Theorem C09_client_hello : forall v,
  map (fun m => cap_bytes (snd m) 1 (client_hello v)) (rx_find_all rx_ncd_capability (client_hello v))
    = [match v with V10 => ncd_v1dot0_cap | V11 => ncd_v1dot1_cap end]
  /\ is_suffix nc_v1dot0_delim (client_hello v) = true.
Proof. exact client_hello_caps. Qed.

(* open succeeds exactly when the hello parses and the table selects a version; it then reports the
   server's capabilities and session-id and sends the hello of the selected version; every failure
   is a NETCONF error *)
Theorem C09_open_spec : forall hb p v caps sid ch,
  nc_open hb p = OpenOk v caps sid ch ->
  exists osid, parse_hello hb = HelloOk caps osid /\ determine_version caps p = Some v /\ ch = client_hello v.
Proof. exact open_spec. Qed.

Theorem C09_open_complete : forall hb p caps osid v,
  parse_hello hb = HelloOk caps osid -> determine_version caps p = Some v ->
  nc_open hb p = OpenOk v caps (match osid with Some z => z | None => 0%Z end) (client_hello v).
Proof. exact open_complete. Qed.

Theorem C09_fail_is_netconf_error : forall hb p, nc_open hb p <> OpenOther.
Proof. exact open_never_other. Qed.

Print Assumptions C09_table.
Print Assumptions C09_11_iff.
Print Assumptions C09_client_hello.
Print Assumptions C09_open_spec.
Print Assumptions C09_open_complete.
Print Assumptions C09_fail_is_netconf_error.

(* ---- the decision logic is the source's: translated statement by statement on this run ---- *)
From Scrapli Require Import DecideLang GeneratedSkel DecideDV.

(* gen/decide.go translates the body of Driver.determineVersion (driver/netconf/capabilities.go)
   into GeneratedSkel.determine_version_code; DecideDV.dv_run interprets it.  For EVERY capability
   list and EVERY preference the translated source selects the version the model selects, fails
   exactly when the model fails, and leaves the channel's prompt pattern on the delimiter of the
   selected version ("all later traffic uses the selected framing") *)
Theorem C09_determine_version_is_source : forall caps p,
  dv_run (has_cap ncd_v1dot0_cap caps) (has_cap ncd_v1dot1_cap caps) p = dv_spec caps p.
Proof. exact determine_version_is_source. Qed.

Print Assumptions C09_determine_version_is_source.

(* ... and the capability test it relies on, Driver.ServerHasCapability as the source has it on this
   run (a range loop over the server's list), is EXACT membership: for every capability and every
   list, of any length *)
From Scrapli Require Import DecideLemmas CapabilitySrc.
Theorem C09_server_has_capability_is_source : forall s caps,
  shc_run s caps = Some (existsb (fun c => beqb c s) caps).
Proof. exact server_has_capability_is_source. Qed.
Print Assumptions C09_server_has_capability_is_source.

(* every test that the translated functions of this property make is one the environments of their
   ties were written for: a test that is new in the source breaks this (an unknown equality would
   otherwise evaluate to false without notice) *)
From Scrapli Require Import DecideLang GeneratedSkel DecideDV.
Theorem C09_source_tests_known :
  tests_known determine_version_code determine_version_known = true.
Proof. exact determine_version_tests_known. Qed.
Print Assumptions C09_source_tests_known.
