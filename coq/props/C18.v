(* C18 — Callback sends fire the right callback on the right trigger.
   Property theorems only; proofs in theories/ChanTraceLemmas.v.  [ptrace]/[ctrace] are the paths through the
   program transcribed from driver/generic/sendwithcallbacks.go; [run_has_trace] shows that the writes and notes of
   EVERY execution (any device, any schedule, faults included) are those of such a path. *)
From Scrapli Require Import Bytes BytesLemmas Regex PlatformTypes Generated Channel Network Session SessionLemmas ChanTrace ChanTraceLemmas.

(* every execution's writes/notes/outcome are those of a program path *)
Theorem C18_traces_cover_executions : forall (D : Type) (feed : D -> bytes -> D * bytes) (cfg : chan_cfg) (R : Type) (p : prog R) (d : D) (start : bytes) (sched : list ev), let st := run feed cfg sched (init_sys d start p) in exists t : list obs, ptrace cfg p t /\ s_wlog st = writes_of t /\ s_notes st = notes_of t /\ (forall r : R + err, outcome st = Some r -> ctrace cfg p t r).
Proof. exact @run_has_trace. Qed.

(* the implemented trigger is the property's: contains (case-insensitively unless disabled) or regex, and NOT containing the not-contains text *)
Theorem C18_trigger_is_spec : forall (c : callback) (b : bytes), cb_check c b = spec_trigger c b.
Proof. exact @cb_check_is_spec. Qed.

(* the callback chosen is the first in list order whose trigger holds on the accumulated output *)
Theorem C18_first_firing : forall (cbs : list callback) (b : bytes) (i : nat) (c : callback), first_firing cbs b 0 = Some (i, c) -> nth_error cbs i = Some c /\ cb_check c b = true /\ (forall (j : nat) (c' : callback), (j < i)%nat -> nth_error cbs j = Some c' -> cb_check c' b = false).
Proof. exact @first_firing_spec. Qed.

(* every callback that runs had its trigger true on exactly the output it was given and no earlier callback's trigger held; none runs while no trigger holds *)
Theorem C18_fires_right : forall (cfg : chan_cfg) (input : bytes) (cbs : list callback) (t : list obs), ptrace cfg (send_with_callbacks cfg input cbs) t -> Forall (fun nt : N * bytes => fst nt = TAG_CB -> cb_note_ok cbs (snd nt)) (notes_of t).
Proof. exact @callbacks_fire_right. Qed.

(* a once-callback runs at most once (its second firing is an error before it runs) *)
Theorem C18_once : forall (cfg : chan_cfg) (input : bytes) (cbs : list callback) (t : list obs) (i : nat) (c : callback), ptrace cfg (send_with_callbacks cfg input cbs) t -> nth_error cbs i = Some c -> cb_once c = true -> (cb_fired_count i t <= 1)%nat.
Proof. exact @callbacks_once. Qed.

(* a successful send ends with a complete-callback and returns the whole dialogue *)
Theorem C18_complete : forall (cfg : chan_cfg) (input : bytes) (cbs : list callback) (t : list obs) (r : bytes), ctrace cfg (send_with_callbacks cfg input cbs) t (inl r) -> r = reads_of t /\ (exists (n0 : list (N * list N)) (i : nat) (c : callback) (bb : list N), notes_of t = n0 ++ [(TAG_CB, print_dec (N.of_nat i) ++ [58] ++ bb)] /\ nth_error cbs i = Some c /\ cb_complete c = true).
Proof. exact @callbacks_complete. Qed.

(* if nothing completes the operation ends with the timeout error *)
Theorem C18_timeout : forall (cfg : chan_cfg) (input : bytes) (cbs : list callback) (t : list obs) (r : bytes + err) (c : cond), ctrace cfg (send_with_callbacks cfg input cbs) t r -> In (OErr c ETimeout) t -> r = inr ETimeout.
Proof. exact @callbacks_timeout. Qed.

(* ... transferred to executions *)
Theorem C18_in_every_run : forall (D : Type) (feed : D -> bytes -> D * bytes) (cfg : chan_cfg) (input : bytes) (cbs : list callback) (d : D) (start : bytes) (sched : list ev), let st := run feed cfg sched (init_sys d start (send_with_callbacks cfg input cbs)) in Forall (fun nt : N * bytes => fst nt = TAG_CB -> cb_note_ok cbs (snd nt)) (s_notes st).
Proof. exact @run_callbacks_fire_right. Qed.

Print Assumptions C18_traces_cover_executions.
Print Assumptions C18_trigger_is_spec.
Print Assumptions C18_first_firing.
Print Assumptions C18_fires_right.
Print Assumptions C18_once.
Print Assumptions C18_complete.
Print Assumptions C18_timeout.
Print Assumptions C18_in_every_run.

(* ---- the trigger test is the source's: Callback.check translated statement by statement on this
   run (gen/decide.go -> GeneratedSkel.callback_check_code, interpreted by DecideLang.exec) ---- *)
From Scrapli Require Import DecideLang GeneratedSkel DecideCB.

Theorem C18_check_is_source : forall c b,
  cb_runt (cb_tests_of c b) = Some (cb_check c b, cb_insensitive c).
Proof. exact callback_check_is_source. Qed.

Print Assumptions C18_check_is_source.

(* THE TIE BY TRANSLATION, continued.  (1) The scan over the callbacks in handleCallbacks, as the
   source has it on this run: for EVERY list of check outcomes it reports the FIRST callback in
   list order whose check holds, none when no check holds — and so does the model's first_firing.
   (2) executeCallback as the source has it: its decision table (all 128 combinations of once /
   already run / has a function / the function fails / complete / reset-output / has a next-timeout,
   evaluated) is [xc_expected]: a once-callback that has run ends the operation with the operation
   error without running; otherwise it is marked and run, then the operation ends with the whole
   dialogue (complete) or the scan goes on with the accumulated output dropped exactly when
   reset-output is set and the callback's own next-timeout in force exactly when it has one;
   [C18_cb_loop_fire] is the model's step with the same tests. *)
From Scrapli Require Import DecideLemmas CallbackSrc.
Theorem C18_callback_scan_is_source : forall checks, scan_run checks = Some (first_true checks 0).
Proof. exact callback_scan_is_source. Qed.

Theorem C18_first_firing_first_true : forall cbs b i,
  option_map fst (first_firing cbs b i) = first_true (map (fun c => cb_check c b) cbs) i.
Proof. exact first_firing_first_true. Qed.

Theorem C18_execute_callback_is_source : xc_table_ok = true.
Proof. exact execute_callback_is_source. Qed.

Theorem C18_cb_loop_fire : forall f cfg cbs b fb fired i c,
  first_firing cbs b 0 = Some (i, c) ->
  cb_loop (S f) cfg cbs b fb fired
  = if cb_once c && existsb (Nat.eqb i) fired then Fail EOperation
    else Note TAG_CB (print_dec (N.of_nat i) ++ [58%N] ++ b)
           ((match cb_answer c with
             | Some a => fun k => Write a false (Write (c_ret cfg) false k)
             | None => fun k => k
             end)
              (if cb_complete c then Ret fb
               else cb_loop f cfg cbs (if cb_reset c then [] else b) fb (if cb_once c then i :: fired else fired))).
Proof. exact cb_loop_fire. Qed.

Print Assumptions C18_callback_scan_is_source.
Print Assumptions C18_first_firing_first_true.
Print Assumptions C18_execute_callback_is_source.
Print Assumptions C18_cb_loop_fire.

(* every test that the translated functions of this property make is one the environments of their
   ties were written for: a test that is new in the source breaks this (an unknown equality would
   otherwise evaluate to false without notice) *)
From Scrapli Require Import DecideLang GeneratedSkel CallbackSrc DecideCB.
Theorem C18_source_tests_known :
  tests_known callback_check_code callback_check_known = true /\
  tests_known execute_callback_code execute_callback_known = true.
Proof. split; [exact callback_check_tests_known | exact execute_callback_tests_known]. Qed.
Print Assumptions C18_source_tests_known.
