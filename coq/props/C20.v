(* C20 — The channel's byte queue is a lossless FIFO under concurrent use.
   Property theorems only; proofs in theories/QueueLemmas.v.  The model (theories/Queue.v) is a
   small-step interleaving semantics of util/queue.go at the granularity of every lock and
   mailbox operation, for one producer and one consumer, over an arbitrary chunk type. *)
From Coq Require Import List Arith.
From Scrapli Require Import DecideLang GeneratedSkel QueueSrc QueueSrcOk Queue QueueLemmas.
Import ListNotations.

(* for every chunk list, every consumer program and EVERY schedule: *)

(* the chunks the consumer holds (net of put-backs) followed by those still queued are exactly
   the chunks produced so far, each once and in order *)
Theorem C20_lossless : forall A chunks ops s, reachable chunks ops s -> got A s ++ q A s = produced A s.
Proof. exact q_lossless. Qed.

Theorem C20_produced_in_order : forall A chunks ops s, reachable chunks ops s -> produced A s ++ todo A s = chunks.
Proof. exact q_produced. Qed.

Theorem C20_final : forall A chunks ops s, reachable chunks ops s -> finished s -> got A s ++ q A s = chunks.
Proof. exact q_final. Qed.

(* no operation panics: the unguarded queue[0] is never reached on an empty slice *)
Theorem C20_no_panic : forall A (chunks : list A) ops s, reachable chunks ops s -> panicked A s = false.
Proof. exact q_no_panic. Qed.

(* the reported depth equals the number of chunks held *)
Theorem C20_depth : forall A chunks ops s, reachable chunks ops s -> depth A s = length (q A s).
Proof. exact q_depth. Qed.
Theorem C20_depth_published : forall A chunks ops s, reachable chunks ops s -> quiescent s ->
  box A s = Some (length (q A s)) /\ lk A s = Free.
Proof. exact q_box_quiescent. Qed.

(* no deadlock: some thread can always move until both programs are finished, every effective
   step decreases a measure, and completion is reachable from every reachable state *)
Theorem C20_no_deadlock : forall A chunks ops (s : st A), reachable chunks ops s -> ~ finished s ->
  exists t s', step s t = Some s'.
Proof. exact q_no_deadlock. Qed.
Theorem C20_progress : forall A (s : st A) t s', step s t = Some s' -> measure s' < measure s.
Proof. exact q_step_decreases. Qed.
Theorem C20_can_finish : forall A chunks ops (s : st A), reachable chunks ops s -> exists sched, finished (exec s sched).
Proof. exact q_can_finish. Qed.

(* an empty queue yields nothing without blocking on (or even touching) the lock *)
Theorem C20_empty_nonblocking : forall A (s : st A) o, cp A s = CPeekDone o 0 -> panicked A s = false ->
  exists s', step s Cons = Some s' /\ cp A s' = CIdle /\ lk A s' = lk A s /\ q A s' = q A s /\ nils A s' = S (nils A s).
Proof. exact q_empty_nonblocking. Qed.

(* THE TIE BY TRANSLATION: every method of util/queue.go, as the source has it on this run
   (GeneratedSkel.queue_code, translated statement by statement), performs in order exactly the
   lock, mailbox, slice and depth actions that the transitions of the model stand for
   (QueueSrc.prod_acts / cons_acts), tests exactly `q.getDepth() == 0` before taking, and returns
   what the model returns.  (The methods are straight-line code with that one test, so the check
   is a finite evaluation; it is the model's granularity and order that it ties to the source.) *)
Theorem C20_queue_is_source : queue_src_ok = true.
Proof. exact queue_src_ok_true. Qed.

Print Assumptions C20_lossless.
Print Assumptions C20_produced_in_order.
Print Assumptions C20_final.
Print Assumptions C20_no_panic.
Print Assumptions C20_depth.
Print Assumptions C20_depth_published.
Print Assumptions C20_no_deadlock.
Print Assumptions C20_progress.
Print Assumptions C20_can_finish.
Print Assumptions C20_empty_nonblocking.
Print Assumptions C20_queue_is_source.

(* every test that the translated functions of this property make is one the environments of their
   ties were written for: a test that is new in the source breaks this (an unknown equality would
   otherwise evaluate to false without notice) *)
From Scrapli Require Import DecideLang GeneratedSkel QueueSrcOk.
Theorem C20_source_tests_known :
  tests_known (flat_map (fun e => snd e) GeneratedSkel.queue_code) queue_known = true.
Proof. exact queue_tests_known. Qed.
Print Assumptions C20_source_tests_known.

(* the library's own put-back: Channel.Open as translated returns what the in-channel authentication
   consumed to the FRONT of the queue (Requeue), after the read loop was started *)
From Scrapli Require Import ChanOpenSrc.
Theorem C20_chan_open_is_source : chan_open_src_ok = true.
Proof. exact chan_open_is_source. Qed.
Print Assumptions C20_chan_open_is_source.
