(* C17 — Every advertised platform definition loads and drives a matching device.
   Property theorems only; proofs in theories/PlatformLemmas.v, NetworkLemmas.v.
   The definitions are REGENERATED into Generated.v from assets/platforms/*.yaml and
   platform/definition.go on every run, so these statements are about what the tree says now. *)
From Scrapli Require Import Bytes BytesLemmas Regex PlatformTypes Generated Channel Network NetworkAbs NetworkLemmas Platform PlatformLemmas.

(* every advertised name has an embedded definition (exhaustive over the generated name list) *)
Theorem C17_names : forallb (fun n => mem_bytes n embedded_platform_files) advertised_platforms = true.
Proof. exact all_names_embedded. Qed.

(* every embedded definition (the documentation example excluded) is well-formed: known driver
   type; levels form a single rooted tree; default level exists; no level named ""; each level's
   canonical prompt matches its own pattern and the joined pattern, passes its not-contains filter
   and is recognised as that level; non-root levels can be left; on-open / on-close steps are
   well-typed and name existing levels *)
Theorem C17_wf : forallb platform_wf real_platforms = true.
Proof. exact all_platforms_wf. Qed.

(* consequence for navigation: a well-formed definition's levels satisfy the hypotheses of the
   unbounded tree theorems of C04 (the DFS returns the unique tree path whatever Go's map order) *)
Theorem C17_paths : forall pd a b, In pd real_platforms -> platform_wf pd = true ->
  pf_driver_type (pd_default pd) = bs "network" ->
  forall net, n_levels net = pf_levels (pd_default pd) -> orders_ok net ->
  In a (names (n_levels net)) -> In b (names (n_levels net)) ->
  build_path (S (length (n_levels net))) net a b [] = tree_path (n_levels net) a b
  /\ exists p, tree_path (n_levels net) a b = Some p /\ hd_error p = Some a /\ last p a = b /\ NoDup p.
Proof. exact wf_paths. Qed.

(* a variant replaces exactly the sections it defines *)
Theorem C17_variant : forall b v,
  pf_driver_type (merge_variant b v) = (match pf_driver_type v with [] => pf_driver_type b | t => t end)
  /\ pf_failed_when (merge_variant b v) = (match pf_failed_when v with [] => pf_failed_when b | l => l end)
  /\ pf_levels (merge_variant b v) = (match pf_levels v with [] => pf_levels b | l => l end)
  /\ pf_default_level (merge_variant b v) = (match pf_default_level v with [] => pf_default_level b | d => d end)
  /\ pf_on_open (merge_variant b v) = (match pf_on_open v with None => pf_on_open b | o => o end)
  /\ pf_on_close (merge_variant b v) = (match pf_on_close v with None => pf_on_close b | o => o end)
  /\ pf_net_on_open (merge_variant b v) = (match pf_net_on_open v with None => pf_net_on_open b | o => o end)
  /\ pf_net_on_close (merge_variant b v) = (match pf_net_on_close v with None => pf_net_on_close b | o => o end)
  /\ pf_options (merge_variant b v) = pf_options b.
Proof. exact merge_variant_spec. Qed.

Print Assumptions C17_names.
Print Assumptions C17_wf.
Print Assumptions C17_paths.
Print Assumptions C17_variant.
