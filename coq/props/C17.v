(* C17 — Every advertised platform definition loads and drives a matching device.
   Property theorems only; proofs in theories/PlatformLemmas.v, NetworkLemmas.v.
   The definitions are REGENERATED into Generated.v from assets/platforms/*.yaml and
   platform/definition.go on every run, so these statements are about what the tree says now. *)
From Coq Require Import List.
From Scrapli Require Import Bytes BytesLemmas Regex PlatformTypes Generated Channel Network NetworkAbs NetworkLemmas NetworkTwins Platform PlatformLemmas PlatformNav PlatformMerge.

(* every advertised name has an embedded definition (exhaustive over the generated name list) *)
Theorem C17_names : forallb (fun n => mem_bytes n embedded_platform_files) advertised_platforms = true.
Proof. exact all_names_embedded. Qed.

(* every embedded definition (the documentation example excluded) is well-formed: known driver
   type; levels form a single rooted tree; default level exists; no level named ""; each level's
   canonical prompt matches its own pattern and the joined pattern, passes its not-contains filter
   and is recognised as that level; non-root levels can be left; on-open / on-close steps are
   well-typed and name existing levels *)
Theorem C17_wf : forallb platform_wf real_platforms = true.
Proof. exact all_platforms_wf. Qed.

(* consequence for navigation: a well-formed definition's levels satisfy the hypotheses of the
   unbounded tree theorems of C04 (the DFS returns the unique tree path whatever Go's map order) *)
Theorem C17_paths : forall pd a b, In pd real_platforms -> platform_wf pd = true ->
  pf_driver_type (pd_default pd) = bs "network" ->
  forall net, n_levels net = pf_levels (pd_default pd) -> orders_ok net ->
  In a (names (n_levels net)) -> In b (names (n_levels net)) ->
  build_path (S (length (n_levels net))) net a b [] = tree_path (n_levels net) a b
  /\ exists p, tree_path (n_levels net) a b = Some p /\ hd_error p = Some a /\ last p a = b /\ NoDup p.
Proof. exact wf_paths. Qed.

(* a variant replaces exactly the sections it defines *)
Theorem C17_variant : forall b v,
  pf_driver_type (merge_variant b v) = (match pf_driver_type v with [] => pf_driver_type b | t => t end)
  /\ pf_failed_when (merge_variant b v) = (match pf_failed_when v with [] => pf_failed_when b | l => l end)
  /\ pf_levels (merge_variant b v) = (match pf_levels v with [] => pf_levels b | l => l end)
  /\ pf_default_level (merge_variant b v) = (match pf_default_level v with [] => pf_default_level b | d => d end)
  /\ pf_on_open (merge_variant b v) = (match pf_on_open v with None => pf_on_open b | o => o end)
  /\ pf_on_close (merge_variant b v) = (match pf_on_close v with None => pf_on_close b | o => o end)
  /\ pf_net_on_open (merge_variant b v) = (match pf_net_on_open v with None => pf_net_on_open b | o => o end)
  /\ pf_net_on_close (merge_variant b v) = (match pf_net_on_close v with None => pf_net_on_close b | o => o end)
  /\ pf_options (merge_variant b v) = pf_options b.
Proof. exact merge_variant_spec. Qed.

(* ---- navigation on every embedded network platform (proofs in theories/PlatformNav.v) ---- *)
(* C17 (navigation part) — "Against a device model built from the definition itself ... every
   level is reachable from every other (levels with indistinguishable prompts counting as one,
   levels without an escalate command only as starting points)".
   Property theorems only; proofs in theories/PlatformNav.v (checkers evaluated by vm_compute over
   the REGENERATED [real_platforms], lifted by reflection), NetworkTwins.v, NetworkLemmas.v.
   Device model: NetworkAbs.dev_line over the definition's own levels; prompt of a level := its
   canonical prompt (Generated.platform_prompts); Go's map iteration orders universally quantified
   ([orders_ok]). *)
Import ListNotations.

(* every embedded network platform passes every checker: no platform is excepted *)
Theorem C17_nav_all : forallb nav_ok_b real_network_platforms = true.
Proof. exact all_network_platforms_nav_ok. Qed.

(* hence the hypotheses of the twin-aware acquire theorem hold of each, whatever the map orders *)
Theorem C17_nav_hypotheses : forall pd, In pd nav_platforms ->
  forall net, n_levels net = pd_levels pd -> orders_ok net ->
  tree_wf (n_levels net) = true /\ ~ In [] (names (n_levels net))
  /\ prompts_identify_upto_twins net (canonical_prompt_of pd)
  /\ unknown_not_twin net (canonical_prompt_of pd)
  /\ cmds_ok_weak (n_levels net).
Proof. exact nav_platform_hypotheses. Qed.

(* navigation on every embedded network platform: from any level with an accurate cache (or an
   unambiguous prompt) AcquirePriv reaches any target whose tree path enters no level without an
   escalate command — in particular ([target_ok_b]) any target that is neither such a level nor
   below one — sending exactly the commands of the tree path; the cache is accurate afterwards *)
Theorem C17_navigation : forall pd, In pd real_platforms ->
  pf_driver_type (pd_default pd) = bs "network" ->
  forall net, n_levels net = pf_levels (pd_default pd) -> orders_ok net ->
  forall d cached target,
    In (d_mode d) (names (n_levels net)) -> In target (names (n_levels net)) ->
    (nav_reachable_b (n_levels net) (d_mode d) target = true \/ target_ok_b (n_levels net) target = true) ->
    cache_ok net (canonical_prompt_of pd) d cached ->
    exists p d', tree_path (n_levels net) (d_mode d) target = Some p /\
                 acquire_priv_abs net (canonical_prompt_of pd) d cached target = AOk d' target /\
                 d_mode d' = target /\ d_log d' = d_log d ++ path_cmds (n_levels net) p /\
                 cache_ok net (canonical_prompt_of pd) d' target.
Proof. exact every_network_platform_navigates. Qed.

(* the same in the form of the task statement, over [nav_platforms] (= the filter of
   [real_platforms] by the checkers, recomputed whenever the YAML changes) *)
Theorem C17_platform_navigation : forall pd, In pd nav_platforms ->
  forall net prompt_of, n_levels net = pd_levels pd -> prompt_of = canonical_prompt_of pd ->
  orders_ok net ->
  forall d cached target,
    In (d_mode d) (names (n_levels net)) -> In target (names (n_levels net)) ->
    nav_reachable_b (n_levels net) (d_mode d) target = true ->
    cache_ok net prompt_of d cached ->
    exists p d', tree_path (n_levels net) (d_mode d) target = Some p /\
                 acquire_priv_abs net prompt_of d cached target = AOk d' target /\
                 d_mode d' = target /\ d_log d' = d_log d ++ path_cmds (n_levels net) p /\
                 cache_ok net prompt_of d' target.
Proof. exact platform_navigation. Qed.

(* session start: the cache is "UNKNOWN", the start level's prompt is unambiguous *)
Theorem C17_navigation_from_start : forall pd, In pd real_platforms ->
  pf_driver_type (pd_default pd) = bs "network" ->
  forall net, n_levels net = pf_levels (pd_default pd) -> orders_ok net ->
  forall d target,
    In (d_mode d) (names (n_levels net)) -> In target (names (n_levels net)) ->
    target_ok_b (n_levels net) target = true ->
    determine_current net (canonical_prompt_of pd (d_mode d)) = [d_mode d] ->
    exists p d', tree_path (n_levels net) (d_mode d) target = Some p /\
                 acquire_priv_abs net (canonical_prompt_of pd) d net_unknown_priv target = AOk d' target /\
                 d_mode d' = target /\ d_log d' = d_log d ++ path_cmds (n_levels net) p /\
                 cache_ok net (canonical_prompt_of pd) d' target.
Proof. exact every_network_platform_navigates_from_start. Qed.

(* the levels "only starting points" are exactly documented: every non-root level without an
   escalate command in the regenerated definitions is listed in [known_start_only] ... *)
Theorem C17_start_only_known :
  forallb (fun pd => forallb (fun t => existsb (fun e => beqb (fst e) (pd_file pd) && beqb (snd e) t) known_start_only)
                             (start_only (pd_levels pd)))
          real_network_platforms = true.
Proof. exact start_only_levels_known. Qed.

(* ... and such a level really cannot be acquired from its parent (the restriction is necessary) *)
Theorem C17_start_only_unreachable : forallb start_only_fails_b real_network_platforms = true.
Proof. exact start_only_levels_unreachable. Qed.

(* on every platform not in the documented list the strict NetworkAbs.cmds_ok holds and every
   level is reachable from every level *)
Theorem C17_strict_navigation : forall pd, In pd real_platforms ->
  pf_driver_type (pd_default pd) = bs "network" ->
  ~ In (pd_file pd) known_partial_platforms ->
  forall net, n_levels net = pf_levels (pd_default pd) -> orders_ok net ->
  cmds_ok (n_levels net) /\
  forall d cached target,
    In (d_mode d) (names (n_levels net)) -> In target (names (n_levels net)) ->
    cache_ok net (canonical_prompt_of pd) d cached ->
    exists p d', tree_path (n_levels net) (d_mode d) target = Some p /\
                 acquire_priv_abs net (canonical_prompt_of pd) d cached target = AOk d' target /\
                 d_mode d' = target /\ d_log d' = d_log d ++ path_cmds (n_levels net) p /\
                 cache_ok net (canonical_prompt_of pd) d' target.
Proof. exact strict_platform_navigation. Qed.

(* non-vacuity and an independent cross-check by execution over all platforms and level pairs *)
Theorem C17_navigation_identity_order : forall pd, In pd real_platforms ->
  pf_driver_type (pd_default pd) = bs "network" ->
  forall m target log, In m (names (pd_levels pd)) -> In target (names (pd_levels pd)) ->
    target_ok_b (pd_levels pd) target = true ->
    exists p d', tree_path (pd_levels pd) m target = Some p /\
                 acquire_priv_abs (lnet (pd_levels pd)) (canonical_prompt_of pd) (mkADev m log) m target = AOk d' target /\
                 d_mode d' = target /\ d_log d' = log ++ path_cmds (pd_levels pd) p.
Proof. exact every_network_platform_navigates_identity_order. Qed.

Theorem C17_navigation_executes : forallb nav_executes_b real_network_platforms = true.
Proof. exact nav_executes_everywhere. Qed.

(* the merge as CODED: the statement list of Platform.mergeVariant, read from the Go AST on every run,
   overwrites exactly the sections the variant defines, each from the variant's same section --
   which is what the model [merge_variant] (C17_variant) does *)
Theorem C17_variant_code : forall defined,
  overwritten merge_variant_clauses defined
  = flat_map (fun x => if defined x then [(x, x)] else []) merge_sections.
Proof. exact merge_variant_code_overwrites. Qed.

Print Assumptions C17_names.
Print Assumptions C17_wf.
Print Assumptions C17_paths.
Print Assumptions C17_variant.
Print Assumptions C17_nav_all.
Print Assumptions C17_nav_hypotheses.
Print Assumptions C17_navigation.
Print Assumptions C17_platform_navigation.
Print Assumptions C17_navigation_from_start.
Print Assumptions C17_start_only_known.
Print Assumptions C17_start_only_unreachable.
Print Assumptions C17_strict_navigation.
Print Assumptions C17_navigation_identity_order.
Print Assumptions C17_navigation_executes.
Print Assumptions C17_variant_code.

(* ---- the canonical prompts against the DECLARATIVE semantics of the patterns ---- *)
From Scrapli Require Import RegexLemmas PlatformLang.

(* the regex engine is sound and (when its fuel suffices) complete for the declarative matching
   relation RegexLemmas.matches: its answers are facts about the pattern's language *)
Theorem C17_regex_engine_decides_language : forall r s,
  rx_fuel_ok r s = true ->
  (rx_match r s = true <-> exists st n, (st <= length s)%nat /\ matches r (last_byte_before st s) (skipn st s) n).
Proof. exact rx_match_iff. Qed.

(* every level of every embedded network platform: its canonical prompt lies in the language of
   the level's own pattern and of the joined prompt pattern *)
Theorem C17_canonical_prompts_in_language : forall pd,
  In pd real_platforms -> pf_driver_type (pd_default pd) = bs "network" ->
  forall kl, In kl (pf_levels (pd_default pd)) ->
  exists pr, lookup_bytes (fst kl) (prompts_of pd) = Some pr /\
             in_language (lv_pattern (snd kl)) pr /\ in_language (pd_joined pd) pr.
Proof. exact canonical_prompts_in_language. Qed.

Print Assumptions C17_regex_engine_decides_language.
Print Assumptions C17_canonical_prompts_in_language.

(* buildPrivGraph / buildJoinedPromptPattern / UpdatePrivileges as translated: the graph built from a platform's levels: a node per level, an edge to the previous level exactly when one is named (the escalate command plays no part), every edge mirrored; the joined prompt pattern *)
From Scrapli Require Import PrivGraphSrc.
Theorem C17_priv_graph_is_source : priv_graph_src_ok = true.
Proof. exact priv_graph_is_source. Qed.
Print Assumptions C17_priv_graph_is_source.
