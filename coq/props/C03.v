(* C03 — NETCONF requests on the wire are correctly framed and carry the caller's content.
   Property theorems only; proofs in theories/NetconfLemmas.v.  [strict_decode11] is a strict
   RFC 6242 decoder (size = [1-9][0-9]{0,9}, exact byte counts, LF '#' '#' LF terminator) and
   [split_eom] the end-of-message splitter: both written independently of [frame]. *)
From Scrapli Require Import Bytes BytesLemmas Regex PlatformTypes Generated Netconf NetconfLemmas.

(* what Response.FramedInput holds is the framing of what Response.Input holds *)
Theorem C03_input_is_wire : forall v f xh id p,
  ser_framed (serialize v f xh id p) = frame v (ser_raw (serialize v f xh id p)).
Proof. reflexivity. Qed.

(* 1.1: the frame, preceded by the LF that the previous message's return supplies and followed by
   its own return, is exactly one strict RFC 6242 message with exact byte counts *)
Theorem C03_framing_11 : forall msg, msg <> [] -> N.of_nat (length msg) <= max_chunk ->
  forall rest, strict_decode11 ([10] ++ frame V11 msg ++ [10] ++ rest) = Some (msg, rest).
Proof. exact frame11_strict. Qed.

(* ... and a whole session of requests (each written as frame, return, return) is a valid chunk
   stream that the strict decoder turns back into exactly the messages, in order *)
Theorem C03_stream_11 : forall msgs,
  Forall (fun m => m <> [] /\ N.of_nat (length m) <= max_chunk) msgs ->
  strict_stream11 (S (length msgs)) ([10] ++ concat (map (fun m => frame V11 m ++ [10; 10]) msgs)) = Some msgs.
Proof. exact stream11_strict. Qed.

(* 1.0: payload then the end-of-message marker *)
Theorem C03_framing_10 : forall msg rest,
  (forall i, (i < length msg)%nat -> is_prefix nc_v1dot0_delim (skipn i (msg ++ nc_v1dot0_delim)) = false) ->
  split_eom (frame V10 msg ++ rest) = Some (msg, rest).
Proof. exact frame10_split. Qed.

(* the writes of one RPC: frame, return, and under 1.1 a second return *)
Theorem C03_rpc_writes : forall framed,
  rpc_writes V10 framed = [framed; default_return_char] /\
  rpc_writes V11 framed = [framed; default_return_char; default_return_char].
Proof. intros; split; reflexivity. Qed.

Print Assumptions C03_input_is_wire.
Print Assumptions C03_framing_11.
Print Assumptions C03_stream_11.
Print Assumptions C03_framing_10.
Print Assumptions C03_rpc_writes.

(* ---- content of the requests (NcSessionLemmas): the operation, the caller's datastore names,
   filter, defaults mode and configuration payload, unaltered ---- *)
From Scrapli Require Import Channel NcSession NcSessionLemmas.

Theorem C03_rpc_wrapper : forall id p, exists attrs, rpc_xml id p = elem (bs "rpc") attrs p /\
  attrs = attr (bs "xmlns") ncd_base_namespace ++ attr (bs "message-id") (print_dec id).
Proof. exact rpc_wrapper. Qed.

Theorem C03_edit_config : forall t c p, op_payload (OEditConfig t c) = BOk p ->
  p = elem (bs "edit-config") [] (datastore (bs "target") t ++ c).
Proof. exact edit_config_content. Qed.

Theorem C03_get_config : forall s f ft dt p, op_payload (OGetConfig s f ft dt) = BOk p ->
  exists fe de,
    p = elem (bs "get-config") [] (datastore (bs "source") s ++ fe ++ de) /\
    (f <> [] -> ft = ncd_filter_subtree -> fe = elem (bs "filter") (attr (bs "type") ft) f) /\
    (dt <> [] -> de = elem (bs "with-defaults") (attr (bs "xmlns") ncd_default_namespace) dt /\
                 existsb (beqb dt) ncd_defaults_types = true) /\
    (dt = [] -> de = []).
Proof. exact get_config_content. Qed.

Theorem C03_raw : forall p, op_payload (ORaw p) = BOk p.
Proof. exact raw_content. Qed.

(* omitting the XML declaration changes only the declaration; without forcing self-closing tags
   the message is exactly declaration ++ rpc element *)
Theorem C03_header_option_local : forall v id p,
  ser_raw (serialize v false false id p) = ncd_xml_header ++ ser_raw (serialize v false true id p).
Proof. exact header_option_local. Qed.

Theorem C03_force_option_off : forall v xh id p,
  ser_raw (serialize v false xh id p) = (if xh then [] else ncd_xml_header) ++ rpc_xml id p.
Proof. exact force_option_off. Qed.

(* what is written for a whole session decodes strictly, request by request *)
Theorem C03_wire_11_decodes : forall f xh id p, let s := serialize V11 f xh id p in
  ser_raw s <> [] -> N.of_nat (length (ser_raw s)) <= max_chunk ->
  forall rest, strict_decode11 ([10] ++ ser_framed s ++ [10] ++ rest) = Some (ser_raw s, rest).
Proof. exact wire_11_decodes. Qed.

Print Assumptions C03_rpc_wrapper.
Print Assumptions C03_edit_config.
Print Assumptions C03_get_config.
Print Assumptions C03_raw.
Print Assumptions C03_header_option_local.
Print Assumptions C03_force_option_off.
Print Assumptions C03_wire_11_decodes.

(* ---- every operation's content, the force-self-closing option (NcExtraLemmas) ---- *)
From Scrapli Require NcExtraLemmas.

Theorem C03_copy_config : forall s t, op_payload (OCopyConfig s t)
  = BOk (elem (bs "copy-config") [] (datastore (bs "target") t ++ datastore (bs "source") s)).
Proof. exact NcExtraLemmas.copy_config_content. Qed.
Theorem C03_delete_config : forall t, op_payload (ODeleteConfig t) = BOk (elem (bs "delete-config") [] (datastore (bs "target") t)).
Proof. exact NcExtraLemmas.delete_config_content. Qed.
Theorem C03_lock : forall t, op_payload (OLock t) = BOk (elem (bs "lock") [] (datastore (bs "target") t)).
Proof. exact NcExtraLemmas.lock_content. Qed.
Theorem C03_unlock : forall t, op_payload (OUnlock t) = BOk (elem (bs "unlock") [] (datastore (bs "target") t)).
Proof. exact NcExtraLemmas.unlock_content. Qed.
Theorem C03_validate : forall s, op_payload (OValidate s) = BOk (elem (bs "validate") [] (datastore (bs "source") s)).
Proof. exact NcExtraLemmas.validate_content. Qed.
Theorem C03_discard : op_payload ODiscard = BOk (elem (bs "discard-changes") [] []).
Proof. exact NcExtraLemmas.discard_content. Qed.

(* get: the filter appears as subtree content or as an (escaped) xpath select attribute; an unknown
   filter type is a build error and nothing is sent *)
Theorem C03_get : forall f ft,
  ((f = [] \/ ft = []) -> op_payload (OGet f ft) = BOk (elem (bs "get") [] [])) /\
  (f <> [] -> ft = ncd_filter_subtree ->
     op_payload (OGet f ft) = BOk (elem (bs "get") [] (elem (bs "filter") (attr (bs "type") ft) f))) /\
  (f <> [] -> ft = ncd_filter_xpath ->
     op_payload (OGet f ft) = BOk (elem (bs "get") [] (elem (bs "filter") (attr (bs "type") ft ++ attr (bs "select") f) []))) /\
  (f <> [] -> ft <> [] -> ft <> ncd_filter_subtree -> ft <> ncd_filter_xpath -> op_payload (OGet f ft) = BErr).
Proof. exact NcExtraLemmas.get_content. Qed.

Theorem C03_get_config_full : forall s f dt, f <> [] -> dt <> [] -> In dt ncd_defaults_types ->
  op_payload (OGetConfig s f ncd_filter_subtree dt)
  = BOk (elem (bs "get-config") [] (datastore (bs "source") s
         ++ elem (bs "filter") (attr (bs "type") ncd_filter_subtree) f
         ++ elem (bs "with-defaults") (attr (bs "xmlns") ncd_default_namespace) dt)).
Proof. exact NcExtraLemmas.get_config_subtree_defaults. Qed.

Theorem C03_commit : forall c tmo p pid, op_payload (OCommit c tmo p pid)
  = BOk (elem (bs "commit") []
      ((if c then elem (bs "confirmed") [] [] else [])
       ++ (if 0 <? tmo then elem (bs "confirm-timeout") [] (print_dec tmo) else [])
       ++ (match p with [] => [] | _ => elem (bs "persist") [] (xml_escape p) end)
       ++ (match pid with [] => [] | _ => elem (bs "persist-id") [] (xml_escape pid) end))).
Proof. exact NcExtraLemmas.commit_content. Qed.

(* whatever the operation: the message is declaration? ++ the rpc element around exactly the payload *)
Theorem C03_every_payload_in_rpc : forall o v xh id p, op_payload o = BOk p ->
  ser_raw (serialize v false xh id p) = (if xh then [] else ncd_xml_header) ++ rpc_xml id p /\
  rpc_xml id p = elem (bs "rpc") (attr (bs "xmlns") ncd_base_namespace ++ attr (bs "message-id") (print_dec id)) p.
Proof. exact NcExtraLemmas.every_payload_in_rpc. Qed.

(* forcing self-closing tags is exactly the rewriting of the message that is sent without it, and
   a message without an empty element pair is sent unchanged *)
Theorem C03_force_option_local : forall v xh id p,
  ser_raw (serialize v true xh id p) = force_self_closing (ser_raw (serialize v false xh id p)) /\
  ser_framed (serialize v true xh id p) = frame v (force_self_closing (ser_raw (serialize v false xh id p))).
Proof. exact NcExtraLemmas.force_option_local. Qed.
Theorem C03_force_option_noop : forall v xh id p,
  rx_match rx_ncd_emptyTags (ser_raw (serialize v false xh id p)) = false ->
  serialize v true xh id p = serialize v false xh id p.
Proof. exact NcExtraLemmas.force_option_noop. Qed.

Print Assumptions C03_copy_config.
Print Assumptions C03_delete_config.
Print Assumptions C03_lock.
Print Assumptions C03_unlock.
Print Assumptions C03_validate.
Print Assumptions C03_discard.
Print Assumptions C03_get.
Print Assumptions C03_get_config_full.
Print Assumptions C03_commit.
Print Assumptions C03_every_payload_in_rpc.
Print Assumptions C03_force_option_local.
Print Assumptions C03_force_option_noop.

(* THE TIE BY TRANSLATION: message.serialize as the source has it on this run, called the way
   Driver.sendRPC calls it (the parameter list of the one and the argument list of the other are
   both read from the source, so a parameter bound to the wrong driver field is seen), builds the
   model's serialize: for every version, both flags, every message-id and payload, the raw copy and
   the framed bytes are the model's. *)
From Scrapli Require Import DecideLang GeneratedSkel SerializeSrc.
Theorem C03_serialize_is_source : forall v force xh id payload,
  exists e_raw e_framed, ser_run v force xh = Some (e_raw, e_framed)
    /\ denote (rpc_xml id payload) e_raw = ser_raw (serialize v force xh id payload)
    /\ denote (rpc_xml id payload) e_framed = ser_framed (serialize v force xh id payload).
Proof. exact serialize_is_source. Qed.
Print Assumptions C03_serialize_is_source.

(* every test that the translated functions of this property make is one the environments of their
   ties were written for: a test that is new in the source breaks this (an unknown equality would
   otherwise evaluate to false without notice) *)
From Scrapli Require Import DecideLang GeneratedSkel SerializeSrc.
Theorem C03_source_tests_known :
  tests_known serialize_code serialize_known = true.
Proof. exact serialize_tests_known. Qed.
Print Assumptions C03_source_tests_known.

(* the element builders of get / get-config as translated (Netconf.filter_elem, defaults_elem, op_payload):
   an unknown filter type or defaults mode is an error, every builder's error is examined before the
   next builder runs and ends the operation with nothing built *)
From Scrapli Require Import NcBuildSrc.
Theorem C03_build_is_source : nc_build_src_ok = true.
Proof. exact nc_build_is_source. Qed.
Print Assumptions C03_build_is_source.
