(* C04 — Privilege navigation reaches the target level along the tree path.
   Property theorems only; proofs in theories/NetworkLemmas.v.

   Two layers.  [Network.v] transcribes driver/network/*.go (graph, depth-first path search with
   Go's random map iteration as an explicit order parameter, current-level inference,
   processAcquirePriv, the AcquirePriv loop and the send wrappers) as programs of the Channel
   interpreter — that is what the correspondence runs replay against the real driver.  The
   theorems below are stated at the level of whole exchanges ([NetworkAbs.v]: each GetPrompt yields
   the device's prompt, each action delivers its command line to a device whose modes are the
   tree); the exchanges themselves are C01's subject.
   Side condition found by the proof: no level may be named by the empty string (Go compares
   PreviousPriv with the current name, and "" means "no previous"); witness in
   NetworkLemmas.Example.acquire_reaches_target_refuted. *)
From Coq Require Import Permutation.
From Scrapli Require Import Bytes BytesLemmas Regex PlatformTypes Generated Channel Network NetworkAbs NetworkLemmas NetworkTwins NetworkHistory NetworkHistoryLemmas.

(* the tree path exists, starts at a, ends at b, has no repeated level, moves along tree edges *)
Theorem C04_tree_path : forall ls a b,
  tree_wf ls = true -> In a (names ls) -> In b (names ls) ->
  exists p, tree_path ls a b = Some p /\ hd_error p = Some a /\ last p a = b /\ NoDup p /\ chain (adj ls) p.
Proof. exact tree_path_spec. Qed.

(* ... and it is the ONLY such path *)
Theorem C04_tree_path_unique : forall ls a b p,
  tree_wf ls = true -> In a (names ls) -> In b (names ls) ->
  hd_error p = Some a -> last p a = b -> NoDup p -> chain (adj ls) p -> tree_path ls a b = Some p.
Proof. exact tree_path_unique. Qed.

(* the driver's depth-first search returns exactly that path whatever order Go iterates the maps in *)
Theorem C04_dfs_order_irrelevant : forall net a b,
  tree_wf (n_levels net) = true -> orders_ok net ->
  In a (names (n_levels net)) -> In b (names (n_levels net)) ->
  build_path (S (length (n_levels net))) net a b [] = tree_path (n_levels net) a b.
Proof. exact dfs_is_tree_path. Qed.

(* acquiring a target from any current level ends at the target, the device having been sent
   exactly the escalate / de-escalate commands of the unique tree path, in path order, each in the
   mode it applies to, and nothing else; the cached level is the target; the 2n loop bound is
   never hit *)
Theorem C04_acquire : forall net prompt_of d cached target,
  tree_wf (n_levels net) = true -> ~ In [] (names (n_levels net)) -> orders_ok net ->
  prompts_identify net prompt_of -> cmds_ok (n_levels net) ->
  In (d_mode d) (names (n_levels net)) -> In target (names (n_levels net)) ->
  exists p d', tree_path (n_levels net) (d_mode d) target = Some p /\
    acquire_priv_abs net prompt_of d cached target = AOk d' target /\
    d_mode d' = target /\ d_log d' = d_log d ++ path_cmds (n_levels net) p.
Proof. exact acquire_reaches_target_partial. Qed.

(* an unknown target is refused with a privilege error before anything is sent *)
Theorem C04_unknown_target : forall net prompt_of d cached target,
  ~ In target (names (n_levels net)) -> keys_are_names (n_levels net) = true ->
  acquire_priv_abs net prompt_of d cached target = AErrPriv d.
Proof. exact acquire_unknown_target. Qed.

(* ---- twins — Privilege navigation on trees where several levels share one prompt.
   Property theorems only; proofs in theories/NetworkTwins.v.

   C04_acquire assumes [prompts_identify]: every prompt names exactly one level.  That excludes the
   platforms with "twin" levels (cisco_iosxr configuration / configuration-exclusive, juniper_junos
   configuration / -exclusive / -private) and, with them, the disambiguation code of
   processAcquirePriv (cached level first, then the target, then the first candidate).  Here the
   hypothesis is [prompts_identify_upto_twins] (a prompt may be recognised as several levels, but
   then they are leaves of the tree) and the cached d.CurrentPriv is tracked by [cache_ok] (it names
   the device's true mode, or that mode is unambiguous); the conclusion re-establishes [cache_ok],
   so the statement composes over a session's acquires ([C04_acquire_many_twins]).
   Side condition found by the proof: "UNKNOWN", which the driver caches after every escalate /
   de-escalate, must not be a candidate of another level's prompt ([unknown_not_twin]; implied by
   "no level is called UNKNOWN"); witness NetworkTwins.Example.unknown_twin_refuted.  [cache_ok] is
   needed as well: witness NetworkTwins.Example.cache_ok_needed. *)
Theorem C04_acquire_twins : forall net prompt_of d cached target,
  tree_wf (n_levels net) = true -> ~ In [] (names (n_levels net)) ->
  orders_ok net -> prompts_identify_upto_twins net prompt_of -> unknown_not_twin net prompt_of ->
  cmds_ok (n_levels net) ->
  In (d_mode d) (names (n_levels net)) -> In target (names (n_levels net)) ->
  cache_ok net prompt_of d cached ->
  exists p d', tree_path (n_levels net) (d_mode d) target = Some p /\
               acquire_priv_abs net prompt_of d cached target = AOk d' target /\
               d_mode d' = target /\ d_log d' = d_log d ++ path_cmds (n_levels net) p /\
               cache_ok net prompt_of d' target.
Proof. exact acquire_reaches_target_twins. Qed.

(* the side condition in its everyday form *)
Theorem C04_unknown_not_level : forall net prompt_of,
  tree_wf (n_levels net) = true -> orders_ok net ->
  ~ In net_unknown_priv (names (n_levels net)) -> unknown_not_twin net prompt_of.
Proof. exact unknown_not_level_not_twin. Qed.

(* C04_acquire is the twin-free special case *)
Theorem C04_acquire_from_twins : forall net prompt_of d cached target,
  tree_wf (n_levels net) = true -> ~ In [] (names (n_levels net)) -> orders_ok net ->
  prompts_identify net prompt_of -> cmds_ok (n_levels net) ->
  In (d_mode d) (names (n_levels net)) -> In target (names (n_levels net)) ->
  exists p d', tree_path (n_levels net) (d_mode d) target = Some p /\
    acquire_priv_abs net prompt_of d cached target = AOk d' target /\
    d_mode d' = target /\ d_log d' = d_log d ++ path_cmds (n_levels net) p.
Proof. exact acquire_reaches_target_partial_from_twins. Qed.

(* a session: any sequence of acquires from an accurate (or irrelevant) cache *)
Theorem C04_acquire_many_twins : forall net prompt_of,
  tree_wf (n_levels net) = true -> ~ In [] (names (n_levels net)) ->
  orders_ok net -> prompts_identify_upto_twins net prompt_of -> unknown_not_twin net prompt_of ->
  cmds_ok (n_levels net) ->
  forall targets d cached,
    In (d_mode d) (names (n_levels net)) -> (forall t, In t targets -> In t (names (n_levels net))) ->
    cache_ok net prompt_of d cached ->
    exists d' c', acquire_many net prompt_of d cached targets = Some (d', c') /\
                  d_mode d' = last targets (d_mode d) /\
                  d_log d' = d_log d ++ paths_cmds (n_levels net) (d_mode d) targets /\
                  cache_ok net prompt_of d' c'.
Proof. exact acquire_many_twins. Qed.


(* ---- histories — "Commands are always executed at the default desired level and configuration
   lines at the configuration (or explicitly requested) level, whatever level earlier operations
   left the device in."  Proofs in theories/NetworkHistoryLemmas.v over theories/NetworkHistory.v
   ([run_aops]: SendCommand(s) with its cached-level shortcut, SendConfigs, AcquirePriv against
   the abstract device).  For EVERY history of operations whose own lines do not themselves change
   the device's mode ([op_inert]), from any start mode with an accurate or not-yet-set cache
   ([cache_inv]): every acquire succeeds, the device's log gains exactly, per operation, the
   commands of the tree path to the operation's level followed by the operation's non-empty lines
   EACH LOGGED AT THAT LEVEL, and the invariant is re-established. *)
Theorem C04_history : forall net prompt_of,
  tree_wf (n_levels net) = true -> ~ In [] (names (n_levels net)) ->
  orders_ok net -> prompts_identify_upto_twins net prompt_of -> unknown_not_twin net prompt_of ->
  cmds_ok (n_levels net) ->
  In (n_default net) (names (n_levels net)) ->
  forall ops d cached,
    In (d_mode d) (names (n_levels net)) ->
    (forall o, In o ops -> In (op_target net o) (names (n_levels net))) ->
    Forall (op_inert net) ops ->
    cache_inv net prompt_of d cached ->
    exists d' c',
      run_aops net prompt_of d cached ops = Some (d', c') /\
      d_log d' = d_log d ++ expected_log net (d_mode d) ops /\
      d_mode d' = last (map (op_target net) ops) (d_mode d) /\
      cache_inv net prompt_of d' c'.
Proof. exact history_levels. Qed.

(* the two clauses read off the log: wherever a SendCommand(s) sits in a history its lines are
   logged at the default desired level ... *)
Theorem C04_commands_at_default : forall net prompt_of,
  tree_wf (n_levels net) = true -> ~ In [] (names (n_levels net)) ->
  orders_ok net -> prompts_identify_upto_twins net prompt_of -> unknown_not_twin net prompt_of ->
  cmds_ok (n_levels net) ->
  In (n_default net) (names (n_levels net)) ->
  forall pre lines post d cached,
    In (d_mode d) (names (n_levels net)) ->
    (forall o', In o' (pre ++ OCmd lines :: post) -> In (op_target net o') (names (n_levels net))) ->
    Forall (op_inert net) (pre ++ OCmd lines :: post) ->
    cache_inv net prompt_of d cached ->
    exists d' c' before nav after,
      run_aops net prompt_of d cached (pre ++ OCmd lines :: post) = Some (d', c') /\
      tree_path (n_levels net) (last (map (op_target net) pre) (d_mode d)) (n_default net) = Some nav /\
      d_log d' = before ++ path_cmds (n_levels net) nav
                 ++ map (fun l => (n_default net, l)) (nonempty_lines lines) ++ after.
Proof. exact commands_at_default. Qed.

(* ... and the lines of a SendConfigs at the configuration (or explicitly requested) level *)
Theorem C04_configs_at_config_level : forall net prompt_of,
  tree_wf (n_levels net) = true -> ~ In [] (names (n_levels net)) ->
  orders_ok net -> prompts_identify_upto_twins net prompt_of -> unknown_not_twin net prompt_of ->
  cmds_ok (n_levels net) ->
  In (n_default net) (names (n_levels net)) ->
  forall pre priv lines post d cached,
    In (d_mode d) (names (n_levels net)) ->
    (forall o', In o' (pre ++ OCfg priv lines :: post) -> In (op_target net o') (names (n_levels net))) ->
    Forall (op_inert net) (pre ++ OCfg priv lines :: post) ->
    cache_inv net prompt_of d cached ->
    exists d' c' before nav after,
      run_aops net prompt_of d cached (pre ++ OCfg priv lines :: post) = Some (d', c') /\
      tree_path (n_levels net) (last (map (op_target net) pre) (d_mode d)) (cfg_target priv) = Some nav /\
      d_log d' = before ++ path_cmds (n_levels net) nav
                 ++ map (fun l => (cfg_target priv, l)) (nonempty_lines lines) ++ after.
Proof. exact configs_at_config_level. Qed.

(* [op_inert] cannot be dropped: a SendCommand whose line is the default level's own de-escalate
   command moves the device behind the driver's back; SendCommand trusts the cached level, so the
   next command runs at the PARENT level.  This is the library's behaviour (known finding F25),
   here as a theorem about every tree whose default level has a parent. *)
Theorem C04_inert_needed : forall net prompt_of dl x d,
  tree_wf (n_levels net) = true -> ~ In [] (names (n_levels net)) -> cmds_ok (n_levels net) ->
  lookup_level (n_levels net) (n_default net) = Some dl -> lv_previous dl <> [] ->
  x <> [] -> d_mode d = n_default net ->
  exists d',
    run_aops net prompt_of d (n_default net) [OCmd [lv_deescalate dl]; OCmd [x]] = Some (d', n_default net) /\
    d_log d' = d_log d ++ [(n_default net, lv_deescalate dl); (lv_previous dl, x)] /\
    lv_previous dl <> n_default net /\
    ~ op_inert net (OCmd [lv_deescalate dl]).
Proof. exact inert_needed_abs. Qed.

Print Assumptions C04_tree_path.
Print Assumptions C04_tree_path_unique.
Print Assumptions C04_dfs_order_irrelevant.
Print Assumptions C04_acquire.
Print Assumptions C04_unknown_target.
Print Assumptions C04_acquire_twins.
Print Assumptions C04_unknown_not_level.
Print Assumptions C04_acquire_from_twins.
Print Assumptions C04_acquire_many_twins.
Print Assumptions C04_history.
Print Assumptions C04_commands_at_default.
Print Assumptions C04_configs_at_config_level.
Print Assumptions C04_inert_needed.

(* ---- processAcquirePriv is the source's: translated statement by statement on this run
   (gen/decide.go -> GeneratedSkel.process_acquire_priv_code, interpreted by DecideLang.exec) ---- *)
From Scrapli Require Import DecideLang GeneratedSkel DecidePA.

(* for every privilege map, cached level, target and prompt: the translated function takes for the
   current level the cached one if the prompt allows it, else the target if the prompt allows it,
   else the first candidate; returns no-action / de-escalate / escalate-to-next exactly as the
   model's [process_acquire]; and leaves d.CurrentPriv on the chosen level resp. the sentinel *)
Theorem C04_process_acquire_is_source : forall net cached target prompt,
  pa_interp net cached target prompt (pa_run (pa_tests_of net cached target prompt))
  = process_acquire net cached target prompt.
Proof. exact process_acquire_is_source. Qed.

Print Assumptions C04_process_acquire_is_source.

(* determineCurrentPriv AS THE SOURCE HAS IT ON THIS RUN (translated with its range loop and its
   `continue`): for every list of per-level test outcomes (excluded by not-contains, pattern
   matches), in whatever order the map is iterated, it reports exactly the levels that are not
   excluded and whose pattern matches, in iteration order, and returns the error exactly when there
   is none; [C04_determine_current_selected]: the model's determine_current is that selection. *)
From Scrapli Require Import DecideLemmas NetworkSrc.
Theorem C04_determine_current_priv_is_source : forall fl,
  dcp_run fl = Some (selected fl 0, match selected fl 0 with [] => false | _ => true end).
Proof. exact determine_current_priv_is_source. Qed.

Theorem C04_determine_current_selected : forall net prompt,
  determine_current net prompt
  = map (fun i => match nth_error (n_level_order net (n_levels net)) i with Some kl => lv_name (snd kl) | None => [] end)
        (selected (flags_of net prompt) 0).
Proof. exact determine_current_selected. Qed.

Print Assumptions C04_determine_current_priv_is_source.
Print Assumptions C04_determine_current_selected.

(* network SendCommand / SendCommands / SendConfigs AS THE SOURCE HAS THEM ON THIS RUN: commands
   acquire the DEFAULT desired level unless the cached level already is it (the shortcut of F25)
   and then hand over to the generic driver; configs ALWAYS acquire — the requested level, or
   "configuration" when none is requested — and pass the acquire's error on; which is the case
   analysis of NetworkHistory.run_aop ([C04_run_aop_cases], by definition). *)
Theorem C04_net_send_is_source : ns_table_ok = true.
Proof. exact net_send_is_source. Qed.

Theorem C04_run_aop_cases : forall net prompt_of d cached lines priv,
  run_aop net prompt_of d cached (OCmd lines)
  = (if beqb cached (n_default net) then Some (send_lines (n_levels net) d lines, cached)
     else match acquire_priv_abs net prompt_of d cached (n_default net) with
          | AOk d' c' => Some (send_lines (n_levels net) d' lines, c')
          | _ => None
          end)
  /\ run_aop net prompt_of d cached (OCfg priv lines)
    = match acquire_priv_abs net prompt_of d cached (match priv with [] => net_default_configuration_priv | p => p end) with
      | AOk d' c' => Some (send_lines (n_levels net) d' lines, c')
      | _ => None
      end.
Proof. intros. split; reflexivity. Qed.

Print Assumptions C04_net_send_is_source.
Print Assumptions C04_run_aop_cases.

(* every test that the translated functions of this property make is one the environments of their
   ties were written for: a test that is new in the source breaks this (an unknown equality would
   otherwise evaluate to false without notice) *)
From Scrapli Require Import DecideLang GeneratedSkel DecidePA NetworkSrc.
Theorem C04_source_tests_known :
  tests_known process_acquire_priv_code process_acquire_priv_known = true /\
  tests_known (net_send_command_code ++ net_send_commands_code ++ net_send_configs_code)%list net_send_known = true.
Proof. split; [exact process_acquire_priv_tests_known | exact net_send_tests_known]. Qed.
Print Assumptions C04_source_tests_known.

(* AcquirePriv AS THE SOURCE HAS IT ON THIS RUN: an unknown target is refused with a privilege error
   before anything is sent; one round of the loop reads the prompt, asks processAcquirePriv, returns
   nil when no action is needed, makes the escalate / de-escalate step, passes every error on as it
   is, counts the step and gives up with a privilege error beyond 2 * levels steps (all 96
   combinations evaluated; every test known); [C04_acquire_loop_step] is the model's round. *)
From Scrapli Require Import AcquireSrc EscalateSrc.
Theorem C04_acquire_priv_is_source : aq_table_ok = true /\ tests_known acquire_priv_code acquire_priv_known = true.
Proof. exact acquire_priv_is_source. Qed.

Theorem C04_acquire_loop_step : forall f net cached target count,
  acquire_loop (S f) net cached target count
  = Channel.bind (get_prompt (n_chan net)) (fun prompt =>
      match process_acquire net cached target prompt with
      | PAErr => Fail EPrivilege
      | PAPanic => Fail EOperation
      | PAOk ANone cur => Note TAG_CUR cur (Ret cur)
      | PAOk a cur =>
          Note TAG_CUR cur
            (Channel.bind (match a with
                   | AEscalate next => escalate net next
                   | ADeescalate c => deescalate net c
                   | ANone => Ret []
                   end)
                  (fun _ => if Nat.ltb (2 * length (n_levels net)) (S count) then Fail EPrivilege
                            else acquire_loop f net cur target (S count)))
      end).
Proof. exact acquire_loop_step. Qed.
Print Assumptions C04_acquire_priv_is_source.
Print Assumptions C04_acquire_loop_step.

(* escalate / deescalate AS THE SOURCE HAS THEM: a plain send of the escalate command unless the
   level wants authentication AND a secondary secret is set; then the two-event dialogue with exactly
   the model's events (command -> escalate prompt, visible; secret -> the level's pattern, hidden)
   and completion patterns (the previous level's and the level's own); de-escalation is a plain send *)
Theorem C04_escalate_is_source : esc_table_ok = true.
Proof. exact escalate_is_source. Qed.
Print Assumptions C04_escalate_is_source.

(* buildPrivGraph / buildJoinedPromptPattern / UpdatePrivileges as translated: the graph the path search walks and the patterns the current level is determined with: every level's pattern compiled from its CURRENT text on every UpdatePrivileges, an edge to the previous level exactly when one is named, every edge mirrored; the joined prompt pattern from the same texts *)
From Scrapli Require Import PrivGraphSrc.
Theorem C04_priv_graph_is_source : priv_graph_src_ok = true.
Proof. exact priv_graph_is_source. Qed.
Print Assumptions C04_priv_graph_is_source.
