(* C05 — Every blocking operation honours its timeout.
   Property theorems only; proofs in theories/SessionLemmas.v (Section Final).
   In the model every blocking read of every operation is an [Until c k h]: [h] is what the
   operation continues with when its context deadline (or timer) fires.  The theorems hold for
   any device, any program and any schedule. *)
From Scrapli Require Import Bytes BytesLemmas Regex PlatformTypes Generated Channel Session SessionLemmas.

(* the deadline takes the operation to its error continuation at once: it is handed ETimeout,
   its read buffer is dropped, nothing else changes *)
Theorem C05_deadline_fires : forall D (feed : D -> bytes -> D * bytes) R cfg (s : @sys D R) c k h,
  s_pc s = Until c k h ->
  step feed cfg s Deadline =
    set_pc (mkSys (s_dev s) (s_pending s) (s_queue s) [] (h ETimeout) (s_wlog s) (s_notes s) (s_reader s)) (h ETimeout).
Proof. exact deadline_at_until. Qed.

(* every read-until of SendInput / GetPrompt / SendInteractive / callbacks / login passes [Fail] as
   its continuation: the outcome is then the timeout error *)
Theorem C05_timeout_error : forall D (feed : D -> bytes -> D * bytes) R cfg (s : @sys D R) c k h e,
  s_pc s = Until c k h -> h ETimeout = Fail e ->
  step feed cfg s Deadline = mkSys (s_dev s) (s_pending s) (s_queue s) [] (Fail e) (s_wlog s) (s_notes s) (s_reader s)
  /\ outcome (step feed cfg s Deadline) = Some (inr e).
Proof. exact deadline_at_until_fail. Qed.

(* an operation that has returned an error consumes no further device output, writes nothing and
   logs nothing, whatever happens afterwards (the queue can only grow): the next exchange starts
   from exactly what the device sent *)
Theorem C05_failed_is_final : forall D (feed : D -> bytes -> D * bytes) R cfg (s : @sys D R) (e : err) sched,
  s_pc s = Fail e ->
  (forall x, In x sched -> x = Op \/ x = Deadline \/ exists n, x = Rd n) ->
  s_pc (run feed cfg sched s) = Fail e /\ outcome (run feed cfg sched s) = Some (inr e) /\
  s_wlog (run feed cfg sched s) = s_wlog s /\ s_notes (run feed cfg sched s) = s_notes s /\
  exists q', s_queue (run feed cfg sched s) = s_queue s ++ q'.
Proof. exact failed_is_final. Qed.

(* a deadline cannot turn into a success: it is ignored everywhere but at a blocking read *)
Theorem C05_deadline_elsewhere : forall D (feed : D -> bytes -> D * bytes) R cfg (s : @sys D R),
  (forall c k h, s_pc s <> Until c k h) -> step feed cfg s Deadline = s.
Proof. exact deadline_elsewhere. Qed.

(* timeout selection: -1 = connection-wide, 0 = the generated maximum, otherwise the per-operation value *)
Theorem C05_precedence : forall ops t,
  get_timeout ops t = if (t =? -1)%Z then ops
                      else if (t =? 0)%Z then (Z.of_N max_timeout_seconds * 1000000000)%Z else t.
Proof. reflexivity. Qed.

From Scrapli Require Import Network ChanTrace ChanTraceLemmas.

(* for every channel operation (send-input, get-prompt, interactive and callback sends, both logins, Open, escalate, de-escalate, AcquirePriv): a path on which a read was handed the deadline ends with the timeout error, and nothing is written or read after it *)
Theorem C05_timeout_is_timeout : forall (p : prog bytes) (cfg : chan_cfg) (t : list obs) (r : bytes + err) (c : cond), chan_op p cfg -> ctrace cfg p t r -> In (OErr c ETimeout) t -> r = inr ETimeout /\ (exists t0 : list obs, t = t0 ++ [OErr c ETimeout]).
Proof. exact @timeout_is_timeout. Qed.

(* a failed implicit privilege change is reported as a privilege error, whatever the cause *)
Theorem C05_implicit_acquire_is_privilege : forall (net : netcfg) (cached : bytes) (t : list obs) (r : bytes + err), ctrace (n_chan net) (acquire_default net cached) t r -> match r with | inl _ => True | inr e => e = EPrivilege end.
Proof. exact @implicit_acquire_failure_is_privilege. Qed.

(* network SendCommand: privilege error if the failure was in the implicit change, otherwise the error itself *)
Theorem C05_send_command_errors : forall (net : netcfg) (cached cmd : bytes) (o : op_opts) (t : list obs) (r : bytes + err) (c : cond) (e : err), ctrace (n_chan net) (net_send_command net cached cmd o) t r -> In (OErr c e) t -> (r = inr EPrivilege \/ r = inr e) /\ (exists t0 : list obs, t = t0 ++ [OErr c e]).
Proof. exact @net_send_command_errors. Qed.

(* ... transferred to executions *)
Theorem C05_timeout_in_every_run : forall (D : Type) (feed : D -> bytes -> D * bytes) (p : prog bytes) (cfg : chan_cfg) (d : D) (start : bytes) (sched : list ev), chan_op p cfg -> let st := run feed cfg sched (init_sys d start p) in exists t : list obs, s_wlog st = writes_of t /\ (forall r : bytes + err, outcome st = Some r -> forall c : cond, In (OErr c ETimeout) t -> r = inr ETimeout /\ (exists t0 : list obs, t = t0 ++ [OErr c ETimeout])).
Proof. exact @run_timeout_is_timeout. Qed.

Print Assumptions C05_deadline_fires.
Print Assumptions C05_timeout_error.
Print Assumptions C05_failed_is_final.
Print Assumptions C05_deadline_elsewhere.
Print Assumptions C05_precedence.
Print Assumptions C05_timeout_is_timeout.
Print Assumptions C05_implicit_acquire_is_privilege.
Print Assumptions C05_send_command_errors.
Print Assumptions C05_timeout_in_every_run.

(* ---- NETCONF RPCs (NcExtraLemmas over the NcSession model of sendRPC's wait) ---- *)
From Scrapli Require Import Netconf NcSession NcSessionLemmas NcSegLemmas.
From Scrapli Require NcExtraLemmas.

(* the deadline of an RPC yields the timeout error -- even when the reply has been filed meanwhile
   (the timer case of the select wins), never a success with something else -- ... *)
Theorem C05_rpc_timeout : forall s o seg p, op_payload o = BOk p -> n_panic s = false ->
  existsb NcExtraLemmas.is_deadline seg = true -> existsb NcExtraLemmas.is_err seg = false ->
  snd (do_rpc s o seg) = RTimeout (Z.of_N (n_next_id s)).
Proof. exact NcExtraLemmas.rpc_timeout. Qed.

(* ... the message-id advances all the same, so the next request is sent under a fresh id and a
   late reply to the timed-out one cannot be taken for its answer; the late reply stays filed *)
Theorem C05_rpc_next_request_fresh_id : forall s o1 seg1 o2 seg2 p1 p2,
  op_payload o1 = BOk p1 -> op_payload o2 = BOk p2 -> n_panic s = false ->
  existsb NcExtraLemmas.is_deadline seg1 = true \/ existsb NcExtraLemmas.is_err seg1 = true ->
  let s1 := fst (do_rpc s o1 seg1) in
  out_id (snd (do_rpc s o1 seg1)) = Some (Z.of_N (n_next_id s)) /\
  n_next_id s1 = n_next_id s + 1 /\ n_next_id (fst (do_rpc s1 o2 seg2)) = n_next_id s + 2.
Proof. exact NcExtraLemmas.next_request_fresh_id. Qed.

Print Assumptions C05_rpc_timeout.
Print Assumptions C05_rpc_next_request_fresh_id.

(* ---- timeout precedence is the source's: Channel.GetTimeout translated on this run ---- *)
From Scrapli Require Import DecideLang GeneratedSkel DecideGT.

Theorem C05_get_timeout_is_source : forall ops t, gt_run ops t = Some (get_timeout ops t).
Proof. exact get_timeout_is_source. Qed.

Print Assumptions C05_get_timeout_is_source.

(* THE TIE BY TRANSLATION for Channel.SendInputB: the function as the source has it on this run (its
   goroutine inline), run for every combination of its option tests and for a failure of either
   read (deadline or loss), invokes the primitives and returns the class of result that the model's
   send_input does — write, echo read (fuzzy or exact), return, prompt read (plain or with the
   interim patterns) unless eager, result; a deadline at a read yields the timeout error, a loss
   the transport's own error, and nothing is invoked after the failing read — for EVERY
   configuration, input, options and sequence of read outcomes. *)
From Scrapli Require Import DecideLang GeneratedSkel InteractiveSrcDefs SendInputSrc.
Theorem C05_send_input_is_source :
  sin_table_ok = true
  /\ forall cfg input o rds,
       mrun (send_input cfg input o) rds
       = (flat_map (sact_pacts cfg input o) (fst (sin_expected (o_exact o) (o_eager o) (is_nil (o_interim o)) (fail_src o input rds))),
          snd (sin_expected (o_exact o) (o_eager o) (is_nil (o_interim o)) (fail_src o input rds))).
Proof. exact send_input_is_source. Qed.
Print Assumptions C05_send_input_is_source.

(* every test that the translated functions of this property make is one the environments of their
   ties were written for: a test that is new in the source breaks this (an unknown equality would
   otherwise evaluate to false without notice) *)
From Scrapli Require Import DecideLang GeneratedSkel DecideGT SendInputSrc.
Theorem C05_source_tests_known :
  tests_known get_timeout_code get_timeout_known = true /\
  tests_known send_input_code send_input_known = true.
Proof. split; [exact get_timeout_tests_known | exact send_input_tests_known]. Qed.
Print Assumptions C05_source_tests_known.

(* THE TIE BY TRANSLATION for sendRPC (the polling goroutine one effect whose text is pinned): for
   every combination of what can happen — serialisation or a write failing, version, and which of
   the three communications ends the wait — the framed request and a return are written (a second
   return under 1.1), a read-loop error ends the call with that error, the timer with the timeout
   error (wrapping util.ErrTimeoutError), and otherwise the reply taken under THIS message's id is
   recorded into the response built from the serialized request (48 runs; every test known). *)
From Scrapli Require Import DecideLang GeneratedSkel RpcSrc.
Theorem C05_send_rpc_is_source : rpc_table_ok = true /\ tests_known send_rpc_code send_rpc_known = true.
Proof. exact send_rpc_is_source. Qed.
Print Assumptions C05_send_rpc_is_source.

(* THE TIE BY TRANSLATION for the read-until functions (ReadUntilFuzzy / Explicit / Prompt / AnyPrompt
   as the source has them on this run): the early return for an empty input, and one round of each
   loop for every combination of what can happen in it — the deadline is looked at FIRST, a read
   error is passed on as it is, an empty read sleeps and goes round, a chunk is appended to
   everything read, and the round returns EVERYTHING READ exactly when the function's own condition
   (its source text is pinned: the model's cond_holds for CFuzzy / CExplicit / CPrompt, on the
   search window of everything read) holds; for ReadUntilAnyPrompt, for every number of patterns
   and every pattern of matches, exactly when SOME pattern matches that window. *)
From Scrapli Require Import DecideLang DecideLemmas GeneratedSkel ReadUntilSrc.
Theorem C05_read_until_is_source :
  ru_table_ok = true
  /\ forall done read_ok nb_nil ms,
       any_run done read_ok nb_nil ms = ru_expected false false done read_ok nb_nil (existsb (fun x => x) ms).
Proof. split; [exact read_until_is_source | exact read_until_any_is_source]. Qed.
Print Assumptions C05_read_until_is_source.
