(* C16 — Built-in transports are transparent, ordered byte pipes that unblock on close.
   Property theorems only; proofs in theories/PipesLemmas.v.

   What is proved is the WRAPPER logic of System/Standard/Telnet Read and Write over an arbitrary
   operating-system oracle (any cutting of the peer's byte stream into kernel deliveries, errors
   anywhere).  That the pty / ssh channel / tcp socket themselves deliver the peer's bytes, and that
   a blocked OS read returns when the transport is closed or the peer goes away, cannot be stated
   about this code: those clauses are measured by the correspondence runs (harness c16.go) — the
   claim is partial in that sense. *)
From Scrapli Require Import Bytes Pipes PipesLemmas.
Open Scope nat_scope.

(* Every byte exactly once and in order, for each of the three Read variants: the bytes the reads
   of a session returned, followed by the bytes still undelivered, are (telnet: the initial buffer
   followed by) the concatenation of the deliveries.  All read-size sequences, all interleavings
   with writes, all delivery splittings, unbounded length. *)
Theorem C16_pipe_reads_concat : forall k ops s rs s',
  run_ops k ops s = (rs, s') -> returned rs ++ pending k s' = pending k s.
Proof. exact pipe_reads_concat. Qed.

(* the three instances spelled out *)
Theorem C16_system_reads : forall ops st inbox rs s',
  run_ops KSystem ops (mkPipe [] st inbox) = (rs, s') ->
  returned rs ++ stream_data (p_stream s') = stream_data st.
Proof. exact system_reads_concat. Qed.

Theorem C16_standard_reads : forall ops st inbox rs s',
  run_ops KStandard ops (mkPipe [] st inbox) = (rs, s') ->
  returned rs ++ stream_data (p_stream s') = stream_data st.
Proof. exact standard_reads_concat. Qed.

Theorem C16_telnet_reads : forall ops initial st inbox rs s',
  run_ops KTelnet ops (mkPipe initial st inbox) = (rs, s') ->
  returned rs ++ (p_init s' ++ stream_data (p_stream s')) = initial ++ stream_data st.
Proof. exact telnet_reads_concat. Qed.

(* segmentation and read sizes are invisible in the bytes *)
Theorem C16_split_independent : forall k ops1 ops2 s1 s2 rs1 rs2 s1' s2',
  pending k s1 = pending k s2 ->
  run_ops k ops1 s1 = (rs1, s1') -> run_ops k ops2 s2 = (rs2, s2') ->
  pending k s1' = [] -> pending k s2' = [] ->
  returned rs1 = returned rs2.
Proof. exact pipe_reads_split_independent. Qed.

(* the peer receives the concatenation of the written slices, in order *)
Theorem C16_pipe_writes_concat : forall k ws s,
  p_inbox (fold_left (fun s b => tr_write k b s) ws s) = p_inbox s ++ concat ws.
Proof. exact pipe_writes_concat. Qed.

Theorem C16_ops_inbox : forall k ops s rs s',
  run_ops k ops s = (rs, s') -> blocked rs = false ->
  p_inbox s' = p_inbox s ++ concat (writes_of ops).
Proof. exact pipe_ops_inbox. Qed.

(* a read of n >= 1 meeting a non-empty delivery returns its first min(n,|d|) bytes: between 1 and
   n of them.  EXCEPTION (what the code does): a telnet Read with a non-empty initial buffer returns
   the whole buffer regardless of n, so it may exceed n. *)
Theorem C16_read_nonempty_le : forall k n s d t r s',
  1 <= n -> p_stream s = inl d :: t -> d <> [] ->
  (k = KTelnet -> p_init s = []) ->
  tr_read k n s = (r, s') ->
  r = ROk (firstn n d) /\ 1 <= length (firstn n d) <= n.
Proof. exact read_nonempty_le. Qed.

Theorem C16_telnet_initial_read : forall n s,
  p_init s <> [] ->
  telnet_read n s = (ROk (p_init s), mkPipe [] (p_stream s) (p_inbox s)).
Proof. exact telnet_initial_read. Qed.

Theorem C16_telnet_initial_may_exceed :
  exists n s b s', 1 <= n /\ telnet_read n s = (ROk b, s') /\ n < length b.
Proof. exact telnet_initial_may_exceed. Qed.

(* errors are not swallowed, and a read blocks only when there is nothing to return *)
Theorem C16_read_error_reported : forall k n s e t,
  p_stream s = inr e :: t -> (k = KTelnet -> p_init s = []) ->
  tr_read k n s = (RErr [] e, with_stream s t).
Proof. exact read_error_reported. Qed.

Theorem C16_read_blocks_only_when_empty : forall k n s s',
  tr_read k n s = (RBlock, s') -> p_stream s = [] /\ (k = KTelnet -> p_init s = []).
Proof. exact read_blocks_iff_nothing. Qed.

Print Assumptions C16_pipe_reads_concat.
Print Assumptions C16_system_reads.
Print Assumptions C16_standard_reads.
Print Assumptions C16_telnet_reads.
Print Assumptions C16_split_independent.
Print Assumptions C16_pipe_writes_concat.
Print Assumptions C16_ops_inbox.
Print Assumptions C16_read_nonempty_le.
Print Assumptions C16_telnet_initial_read.
Print Assumptions C16_telnet_initial_may_exceed.
Print Assumptions C16_read_error_reported.
Print Assumptions C16_read_blocks_only_when_empty.
