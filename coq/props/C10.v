(* C10 — In-channel login succeeds iff the device admits us; attempts are bounded.
   Property theorems only; proofs in theories/ChanTraceLemmas.v, over the programs transcribed from channel/auth.go and
   Channel.Open.  Bounds are the GENERATED constants (password_seen_max ...), so changing 2 to 3 in the source changes
   the statement. *)
From Scrapli Require Import Bytes BytesLemmas Regex PlatformTypes Generated Channel Network Session SessionLemmas ChanTrace ChanTraceLemmas.

(* every execution's writes/notes/outcome are those of a program path *)
Theorem C10_traces_cover_executions : forall (D : Type) (feed : D -> bytes -> D * bytes) (cfg : chan_cfg) (R : Type) (p : prog R) (d : D) (start : bytes) (sched : list ev), let st := run feed cfg sched (init_sys d start p) in exists t : list obs, ptrace cfg p t /\ s_wlog st = writes_of t /\ s_notes st = notes_of t /\ (forall r : R + err, outcome st = Some r -> ctrace cfg p t r).
Proof. exact @run_has_trace. Qed.

(* password and passphrase are each sent at most max times, always redacted *)
Theorem C10_ssh_bounds : forall (cfg : chan_cfg) (ap : auth_pats) (pw pp : bytes) (t : list obs), pw <> c_ret cfg -> pp <> c_ret cfg -> pw <> pp -> ptrace cfg (auth_ssh cfg ap pw pp) t -> (count_writes pw t <= password_seen_max)%nat /\ (count_writes pp t <= passphrase_seen_max)%nat /\ creds_redacted (c_ret cfg) t.
Proof. exact @auth_ssh_bounds. Qed.

(* user name and password are each sent at most max times, always redacted *)
Theorem C10_telnet_bounds : forall (cfg : chan_cfg) (ap : auth_pats) (user pw : bytes) (t : list obs), user <> c_ret cfg -> pw <> c_ret cfg -> user <> pw -> ptrace cfg (auth_telnet cfg ap user pw) t -> (count_writes user t <= username_seen_max)%nat /\ (count_writes pw t <= password_seen_max)%nat /\ creds_redacted (c_ret cfg) t.
Proof. exact @auth_telnet_bounds. Qed.

(* the password is written only directly after a read whose accumulated buffer matched the password pattern (no ssh error, no shell prompt) *)
Theorem C10_ssh_password_only_at_prompt : forall (cfg : chan_cfg) (ap : auth_pats) (pw pp : bytes) (t t1 : list obs) (r : bool) (t2 : list obs), pw <> c_ret cfg -> pp <> c_ret cfg -> pw <> pp -> ptrace cfg (auth_ssh cfg ap pw pp) t -> t = t1 ++ OWrite pw r :: t2 -> exists (t0 : list obs) (prefix rb : bytes), t1 = t0 ++ [ORead (CSshAuth prefix (ssh_pats cfg ap)) rb] /\ tail_reads_from [] t1 = prefix ++ rb /\ ssh_error (prefix ++ rb) = false /\ rx_match (c_prompt cfg) (prefix ++ rb) = false /\ rx_match (ap_pass ap) (prefix ++ rb) = true.
Proof. exact @auth_ssh_password_answers. Qed.

(* the passphrase only after the passphrase pattern matched *)
Theorem C10_ssh_passphrase_only_at_prompt : forall (cfg : chan_cfg) (ap : auth_pats) (pw pp : bytes) (t t1 : list obs) (r : bool) (t2 : list obs), pw <> c_ret cfg -> pp <> c_ret cfg -> pw <> pp -> ptrace cfg (auth_ssh cfg ap pw pp) t -> t = t1 ++ OWrite pp r :: t2 -> exists (t0 : list obs) (prefix rb : bytes), t1 = t0 ++ [ORead (CSshAuth prefix (ssh_pats cfg ap)) rb] /\ tail_reads_from [] t1 = prefix ++ rb /\ ssh_error (prefix ++ rb) = false /\ rx_match (c_prompt cfg) (prefix ++ rb) = false /\ rx_match (ap_pass ap) (prefix ++ rb) = false /\ rx_match (ap_passphrase ap) (prefix ++ rb) = true.
Proof. exact @auth_ssh_passphrase_answers. Qed.

(* telnet: user name only to a user-name prompt, password only to a password prompt *)
Theorem C10_telnet_answers : forall (cfg : chan_cfg) (ap : auth_pats) (user pw : bytes) (t : list obs), user <> c_ret cfg -> pw <> c_ret cfg -> user <> pw -> ptrace cfg (auth_telnet cfg ap user pw) t -> answered_only' user (tn_user_ok cfg ap) t /\ answered_only' pw (tn_pw_ok cfg ap) t.
Proof. exact @auth_telnet_answers. Qed.

(* success exactly when the shell prompt matched the bytes read since the last reset; those bytes are the result *)
Theorem C10_outcome_ok : forall (cfg : chan_cfg) (ap : auth_pats) (pw pp : bytes) (t : list obs) (r : bytes + err) (b : bytes), ctrace cfg (auth_ssh cfg ap pw pp) t r -> r = inl b <-> (exists (c : cond) (rb : bytes), last_opt t = Some (ORead c rb) /\ b = tail_reads_from [] t /\ ssh_error b = false /\ rx_match (c_prompt cfg) b = true).
Proof. exact @auth_outcome_ok. Qed.

(* authentication error exactly on the (max+1)-th prompt *)
Theorem C10_outcome_auth : forall (cfg : chan_cfg) (ap : auth_pats) (pw pp : bytes) (t : list obs) (r : bytes + err), ctrace cfg (auth_ssh cfg ap pw pp) t r -> r = inr EAuth <-> one_too_many cfg ap [] 0 0 t \/ (exists c : cond, last_opt t = Some (OErr c EAuth)).
Proof. exact @auth_outcome_auth. Qed.

(* recognised ssh failure messages (or loss of the stream) give a connection error *)
Theorem C10_outcome_connection : forall (cfg : chan_cfg) (ap : auth_pats) (pw pp : bytes) (t : list obs) (r : bytes + err), ctrace cfg (auth_ssh cfg ap pw pp) t r -> r = inr EConnection <-> (exists (c : cond) (rb : bytes), last_opt t = Some (ORead c rb) /\ ssh_error (tail_reads_from [] t) = true) \/ (exists c : cond, last_opt t = Some (OErr c EConnection)).
Proof. exact @auth_outcome_connection. Qed.

(* silence gives the timeout error *)
Theorem C10_outcome_timeout : forall (cfg : chan_cfg) (ap : auth_pats) (pw pp : bytes) (t : list obs) (r : bytes + err) (c : cond), ctrace cfg (auth_ssh cfg ap pw pp) t r -> In (OErr c ETimeout) t -> r = inr ETimeout.
Proof. exact @auth_outcome_timeout. Qed.

(* Open puts exactly the bytes read during login back at the front of the queue *)
Theorem C10_bytes_kept_ssh : forall (cfg : chan_cfg) (ap : auth_pats) (pw pp : bytes) (t : list obs) (r : bytes + err), ctrace cfg (channel_open cfg ap (AuthSSH pw pp)) t r -> match r with | inl b => b = [] /\ ctrace cfg (auth_ssh cfg ap pw pp) t (inl []) \/ b <> [] /\ (exists t0 : list obs, t = t0 ++ [ORequeue b] /\ ctrace cfg (auth_ssh cfg ap pw pp) t0 (inl b)) | inr e => ctrace cfg (auth_ssh cfg ap pw pp) t (inr e) end.
Proof. exact @channel_open_requeues_ssh. Qed.

(* same for telnet *)
Theorem C10_bytes_kept_telnet : forall (cfg : chan_cfg) (ap : auth_pats) (u pw : bytes) (t : list obs) (r : bytes + err), ctrace cfg (channel_open cfg ap (AuthTelnet u pw)) t r -> match r with | inl b => b = [] /\ ctrace cfg (auth_telnet cfg ap u pw) t (inl []) \/ b <> [] /\ (exists t0 : list obs, t = t0 ++ [ORequeue b] /\ ctrace cfg (auth_telnet cfg ap u pw) t0 (inl b)) | inr e => ctrace cfg (auth_telnet cfg ap u pw) t (inr e) end.
Proof. exact @channel_open_requeues_telnet. Qed.

(* ... transferred to executions *)
Theorem C10_bounds_in_every_run : forall (D : Type) (feed : D -> bytes -> D * bytes) (cfg : chan_cfg) (ap : auth_pats) (pw pp : bytes) (d : D) (start : bytes) (sched : list ev), pw <> c_ret cfg -> pp <> c_ret cfg -> pw <> pp -> let st := run feed cfg sched (init_sys d start (auth_ssh cfg ap pw pp)) in (length (filter (fun w : bytes * bool => beqb pw (fst w)) (s_wlog st)) <= password_seen_max)%nat /\ (length (filter (fun w : bytes * bool => beqb pp (fst w)) (s_wlog st)) <= passphrase_seen_max)%nat /\ (forall (b : bytes) (r : bool), In (b, r) (s_wlog st) -> b <> c_ret cfg -> r = true).
Proof. exact @run_auth_ssh_bounds. Qed.

Print Assumptions C10_traces_cover_executions.
Print Assumptions C10_ssh_bounds.
Print Assumptions C10_telnet_bounds.
Print Assumptions C10_ssh_password_only_at_prompt.
Print Assumptions C10_ssh_passphrase_only_at_prompt.
Print Assumptions C10_telnet_answers.
Print Assumptions C10_outcome_ok.
Print Assumptions C10_outcome_auth.
Print Assumptions C10_outcome_connection.
Print Assumptions C10_outcome_timeout.
Print Assumptions C10_bytes_kept_ssh.
Print Assumptions C10_bytes_kept_telnet.
Print Assumptions C10_bounds_in_every_run.

(* ---- "in every failure case the transport is closed" ---- *)
From Scrapli Require Import GeneratedSkel OpenSkel.

(* Channel.Open and the Open of the generic, network and NETCONF drivers, as the source says NOW
   (GeneratedSkel.open_skeleton, re-extracted on every run): once the layer below has been opened,
   every return that carries an error is covered by a close of the connection -- a deferred one
   registered before it, or a direct call since the previous return (OpenSkel.open_closes_ok) *)
Theorem C10_open_closes_on_failure : open_all_ok = true.
Proof. exact open_functions_close_on_failure. Qed.

Print Assumptions C10_open_closes_on_failure.

(* THE TIE BY TRANSLATION for the login dialogues: authenticateSSH and authenticateTelnet as the
   source has them on this run — one round of each loop evaluated for every combination of what can
   happen in it (1024 + 256 rounds; every test known) — take the decisions of the model's rounds
   ([C10_auth_ssh_round], [C10_auth_telnet_round]): error messages first (ssh), then the prompt
   (success with everything read), then the password prompt, then the passphrase / user-name
   prompt; the matching credential is written redacted and followed by a return; the count of that
   prompt goes up and one prompt too many is an authentication error (wrapping util.ErrAuthError);
   the buffer is reset after an answer; every transport error is passed on as it is. *)
From Scrapli Require Import DecideLang GeneratedSkel AuthSrc.
Theorem C10_auth_is_source :
  as_table_ok = true /\ at_table_ok = true
  /\ tests_known auth_ssh_code auth_ssh_known = true /\ tests_known auth_telnet_code auth_telnet_known = true.
Proof. exact auth_is_source. Qed.

Theorem C10_auth_ssh_round : forall f cfg ap pw pp b pc ppc,
  auth_ssh_loop (S f) cfg ap pw pp b pc ppc
  = Until (CSshAuth b [c_prompt cfg; ap_pass ap; ap_passphrase ap])
      (fun nb =>
         let b := b ++ nb in
         if ssh_error b then Fail EConnection
         else if rx_match (c_prompt cfg) b then Ret b
         else if rx_match (ap_pass ap) b then
                if Nat.ltb password_seen_max (S pc) then Fail EAuth
                else Write pw true (Write (c_ret cfg) false (auth_ssh_loop f cfg ap pw pp [] (S pc) ppc))
         else if rx_match (ap_passphrase ap) b then
                if Nat.ltb passphrase_seen_max (S ppc) then Fail EAuth
                else Write pp true (Write (c_ret cfg) false (auth_ssh_loop f cfg ap pw pp [] pc (S ppc)))
         else auth_ssh_loop f cfg ap pw pp b pc ppc)
      Fail.
Proof. exact auth_ssh_round. Qed.

Theorem C10_auth_telnet_round : forall f cfg ap user pw b uc pc,
  auth_telnet_loop (S f) cfg ap user pw b uc pc
  = Until (CAnyPrompt [c_prompt cfg; ap_user ap; ap_pass ap])
      (fun nb =>
         let b := b ++ nb in
         if rx_match (c_prompt cfg) b then Ret b
         else if rx_match (ap_user ap) b then
                if Nat.ltb username_seen_max (S uc) then Fail EAuth
                else Write user true (Write (c_ret cfg) false (auth_telnet_loop f cfg ap user pw [] (S uc) pc))
         else if rx_match (ap_pass ap) b then
                if Nat.ltb password_seen_max (S pc) then Fail EAuth
                else Write pw true (Write (c_ret cfg) false (auth_telnet_loop f cfg ap user pw [] uc (S pc)))
         else auth_telnet_loop f cfg ap user pw b uc pc)
      Fail.
Proof. exact auth_telnet_round. Qed.
Print Assumptions C10_auth_is_source.
Print Assumptions C10_auth_ssh_round.
Print Assumptions C10_auth_telnet_round.
