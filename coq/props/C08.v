(* C08 — Each NETCONF call gets the reply to its own request.
   Property theorems only; proofs in theories/NcSessionLemmas.v.  [nc_session] replays the read
   loop of driver/netconf/read.go (message delimiting, echo skipping, filing by message-id) and
   the RPC wait of rpc.go over an arbitrary log of chunks / writes / deadlines. *)
From Scrapli Require Import Bytes BytesLemmas Regex PlatformTypes Generated Channel Netconf NetconfLemmas NcSession NcSessionLemmas NcSegLemmas.
From Scrapli Require NcExtraLemmas.

(* message-ids: exactly one consecutive id per request actually built, from the generated initial
   id, in order (unique and strictly increasing) — for every operation list and every log *)
Theorem C08_ids : forall v force xh ops log s outs,
  nc_session v force xh ops log = (s, outs) ->
  map out_id (filter consumed_id outs)
    = map (fun k => Some (Z.of_N (ncd_initial_message_id + N.of_nat k)))
          (seq 0 (length (built (firstn (length outs) ops)))).
Proof. exact session_ids_exact. Qed.

(* every call that returns a reply returns one whose own message-id is the call's id — never the
   reply to another request — decoded from a message the read loop actually filed *)
Theorem C08_own_reply : forall v force xh ops log s outs,
  nc_session v force xh ops log = (s, outs) ->
  Forall (fun o => match o with
                   | ROk id _ _ res rpce pe =>
                       exists rawmsg, message_id_of rawmsg = id /\ record_fast v rawmsg = RecOut res rpce pe
                   | _ => True end) outs.
Proof. exact own_reply_session_strong. Qed.

(* ... and the request it reports is its own serialisation; its store entry is consumed *)
Theorem C08_own_request : forall s o seg s' id raw framed res rpce pe,
  do_rpc s o seg = (s', ROk id raw framed res rpce pe) ->
  exists p, op_payload o = BOk p /\
    raw = ser_raw (serialize (n_ver s) (n_force s) (n_xh s) (n_next_id s) p) /\
    framed = ser_framed (serialize (n_ver s) (n_force s) (n_xh s) (n_next_id s) p) /\
    store_get (n_store s') id = None.
Proof. exact own_reply_request. Qed.

(* a complete message (delimiter seen, not an echo of our own rpc, id extractable) is filed under
   its id and the buffer reset; an incomplete one is kept whole — for any split into chunks *)
Theorem C08_complete_message_filed : forall v b st chunk id,
  rx_match (delim_re v) (b ++ chunk) = true -> contains END_RPC (b ++ chunk) = false ->
  message_id_of (b ++ chunk) = id -> id <> 0%Z ->
  exists st', nc_read_chunk v b st chunk = RdKeep [] st' /\ store_get st' id = Some (b ++ chunk).
Proof. exact complete_message_filed'. Qed.

Theorem C08_incomplete_kept : forall v b st chunk,
  rx_match (delim_re v) (b ++ chunk) = false -> nc_read_chunk v b st chunk = RdKeep (b ++ chunk) st.
Proof. exact incomplete_kept. Qed.

(* a reply that arrives late (its call timed out) stays filed under its own id: no other call
   removes or returns it *)
Theorem C08_late_reply_harmless : forall s o seg s' r j,
  do_rpc s o seg = (s', r) -> store_get (n_store s) j <> None -> j <> Z.of_N (n_next_id s) ->
  store_get (n_store s') j <> None.
Proof. exact late_reply_harmless. Qed.

(* the read loop never panics (the Split(...)[1] it performs is always in range) *)
Theorem C08_no_panic : forall v force xh ops log s outs,
  nc_session v force xh ops log = (s, outs) -> ~ In RPanic outs.
Proof. exact session_no_panic. Qed.


(* "a reply the server sent in full is never lost", "for any split of the byte stream into reads":
   whatever writes the call makes and however the reply to ITS message-id is cut into reads (no
   read boundary making a proper prefix look complete), the call returns that reply, decoded; the
   store entry is consumed and the next id is the successor *)
Theorem C08_reply_never_lost : forall s o p ws0 cs m,
  n_buf s = [] -> n_panic s = false -> op_payload o = BOk p ->
  concat cs = m ->
  (forall k, (k < length cs)%nat -> rx_match (delim_re (n_ver s)) (concat (firstn k cs)) = false) ->
  rx_match (delim_re (n_ver s)) m = true -> contains END_RPC m = false ->
  message_id_of m = Z.of_N (n_next_id s) -> Z.of_N (n_next_id s) <> 0%Z ->
  exists s' r rpce pe,
    do_rpc s o (map NW ws0 ++ map NR cs)
    = (s', ROk (Z.of_N (n_next_id s))
               (ser_raw (serialize (n_ver s) (n_force s) (n_xh s) (n_next_id s) p))
               (ser_framed (serialize (n_ver s) (n_force s) (n_xh s) (n_next_id s) p))
               r rpce pe) /\
    record_fast (n_ver s) m = RecOut r rpce pe.
Proof.
  intros s o p ws0 cs m Hb Hp Ho Hc Hpre Hm He Hid Hnz.
  destruct (reply_never_lost s o p ws0 cs m Hb Hp Ho Hc Hpre Hm He Hid Hnz) as [s' [r [rpce [pe H]]]].
  exists s', r, rpce, pe. split; [exact (proj1 H)|exact (proj1 (proj2 H))].
Qed.

(* the filing of one message does not depend on the cut, and leaves every other id's entry alone *)
Theorem C08_message_any_split : forall v st cs m id,
  concat cs = m ->
  (forall k, (k < length cs)%nat -> rx_match (delim_re v) (concat (firstn k cs)) = false) ->
  rx_match (delim_re v) m = true -> contains END_RPC m = false ->
  message_id_of m = id -> id <> 0%Z ->
  exists st', read_chunks v [] st cs = RdKeep [] st' /\ store_get st' id = Some m /\
              (forall j, j <> id -> store_get st' j = store_get st j).
Proof. exact message_any_split. Qed.


(* the id advances on EVERY request that is built -- also when the call ends in a timeout or an
   error -- and on no other occasion (unique and strictly increasing, whatever happened before) *)
Theorem C08_id_advances_always : forall s o seg,
  (forall p, op_payload o = BOk p -> n_next_id (fst (do_rpc s o seg)) = n_next_id s + 1) /\
  (op_payload o = BErr -> n_next_id (fst (do_rpc s o seg)) = n_next_id s /\ snd (do_rpc s o seg) = RBuildErr).
Proof. exact NcExtraLemmas.id_advances_always. Qed.

(* a call that times out (or fails) deletes nothing from the store: its own late reply and every
   other entry stay filed under their ids *)
Theorem C08_late_reply_kept : forall s o seg p, op_payload o = BOk p -> n_panic s = false ->
  existsb NcExtraLemmas.is_deadline seg = true \/ existsb NcExtraLemmas.is_err seg = true ->
  let s2 := fst (fst (run_segment s seg false false)) in
  fst (do_rpc s o seg) = NcExtraLemmas.with_next_id s2 (n_next_id s + 1) /\
  (forall j, store_get (n_store (fst (do_rpc s o seg))) j = store_get (n_store s2) j) /\
  (forall j, store_get (n_store s) j <> None -> store_get (n_store (fst (do_rpc s o seg))) j <> None).
Proof. exact NcExtraLemmas.late_reply_kept. Qed.

Print Assumptions C08_ids.
Print Assumptions C08_own_reply.
Print Assumptions C08_own_request.
Print Assumptions C08_complete_message_filed.
Print Assumptions C08_incomplete_kept.
Print Assumptions C08_late_reply_harmless.
Print Assumptions C08_no_panic.
Print Assumptions C08_reply_never_lost.
Print Assumptions C08_message_any_split.
Print Assumptions C08_id_advances_always.
Print Assumptions C08_late_reply_kept.

(* THE TIE BY TRANSLATION for the reply store: storeMessage / getMessage as the source has them on
   this run file a reply under its message-id itself and hand a call — removing it — exactly what is
   filed under ITS id, both under the messages lock (the model keeps replies in a map keyed by
   message-id). *)
From Scrapli Require Import DecideLang GeneratedSkel NcStoreSrc.
Theorem C08_store_is_source : nc_store_ok = true.
Proof. exact nc_store_is_source. Qed.
Print Assumptions C08_store_is_source.

(* THE TIE BY TRANSLATION for sendRPC (the polling goroutine one effect whose text is pinned): for
   every combination of what can happen — serialisation or a write failing, version, and which of
   the three communications ends the wait — the framed request and a return are written (a second
   return under 1.1), a read-loop error ends the call with that error, the timer with the timeout
   error (wrapping util.ErrTimeoutError), and otherwise the reply taken under THIS message's id is
   recorded into the response built from the serialized request (48 runs; every test known). *)
From Scrapli Require Import DecideLang GeneratedSkel RpcSrc.
Theorem C08_send_rpc_is_source : rpc_table_ok = true /\ tests_known send_rpc_code send_rpc_known = true.
Proof. exact send_rpc_is_source. Qed.
Print Assumptions C08_send_rpc_is_source.

(* the NETCONF read loop as translated: one round for all 512 combinations of what it can meet —
   append first, keep without a delimiter, cut the echo at the first delimiter of the session's
   version, else file under the message-id (when not 0) and empty the buffer (NcSession.nc_examine) *)
From Scrapli Require Import NcReadSrc.
Theorem C08_read_round_is_source : nc_read_table_ok = true.
Proof. exact nc_read_round_is_source. Qed.
Print Assumptions C08_read_round_is_source.
