(* C06 — Connection loss surfaces as an error, never as a hang or a truncated success.
   Property theorems only; proofs in theories/SessionLemmas.v.  Model: the reader reports
   end-of-stream ([Eof]: it exits, flag set) or a read error ([Ioerr]: it hands the error to
   whichever operation reads next); an operation's read-until then continues with its error
   continuation BEFORE looking at the queue (as Channel.Read does). *)
From Scrapli Require Import Bytes BytesLemmas Regex PlatformTypes Generated Channel ChannelLemmas Session SessionLemmas.

(* after end-of-stream the operation's next read step yields the connection error; after a read
   error it yields the transport error — at once, without waiting for a deadline *)
Theorem C06_eof_fails_read : forall D (feed : D -> bytes -> D * bytes) R cfg (s : @sys D R) c k h,
  s_pc s = Until c k h -> s_reader s = RExited ->
  step feed cfg s Op = set_pc (mkSys (s_dev s) (s_pending s) (s_queue s) [] (h EConnection) (s_wlog s) (s_notes s) RExited) (h EConnection).
Proof. exact eof_fails_read. Qed.

Theorem C06_ioerr_fails_read : forall D (feed : D -> bytes -> D * bytes) R cfg (s : @sys D R) c k h,
  s_pc s = Until c k h -> s_reader s = RErr ->
  step feed cfg s Op = set_pc (mkSys (s_dev s) (s_pending s) (s_queue s) [] (h ETransport) (s_wlog s) (s_notes s) RRun) (h ETransport).
Proof. exact ioerr_fails_read. Qed.

(* once the stream has ended it stays ended: the reader never runs again, so every later
   read-until of every later operation fails the same way *)
Theorem C06_eof_is_permanent : forall D (feed : D -> bytes -> D * bytes) R cfg (s : @sys D R) e,
  s_reader s = RExited -> s_reader (step feed cfg s e) = RExited.
Proof. exact eof_is_permanent. Qed.

(* a failed operation stays failed and touches nothing (no success can follow a loss) *)
Theorem C06_failed_is_final : forall D (feed : D -> bytes -> D * bytes) R cfg (sched : list ev) (s : @sys D R),
  finished R (s_pc s) ->
  s_pc (run feed cfg sched s) = s_pc s /\ s_dev (run feed cfg sched s) = s_dev s /\
  s_wlog (run feed cfg sched s) = s_wlog s /\ s_notes (run feed cfg sched s) = s_notes s /\
  s_acc (run feed cfg sched s) = s_acc s /\
  exists q', s_queue (run feed cfg sched s) = s_queue s ++ q'.
Proof. intros D feed R cfg sched s. apply finished_run. Qed.

From Scrapli Require Import Network ChanTrace ChanTraceLemmas.

(* for every channel operation: a path on which a read was handed a connection / transport error ends with that error (never a success), and it is the last thing that happens *)
Theorem C06_loss_is_error : forall (p : prog bytes) (cfg : chan_cfg) (t : list obs) (r : bytes + err) (c : cond) (e : err), chan_op p cfg -> ctrace cfg p t r -> In (OErr c e) t -> e = EConnection \/ e = ETransport -> r = inr e /\ (forall x : bytes, r <> inl x).
Proof. exact @loss_is_error. Qed.

(* under an implicit privilege change the loss is reported as a privilege error *)
Theorem C06_loss_under_implicit_acquire : forall (net : netcfg) (cached : bytes) (t : list obs) (r : bytes + err) (c : cond) (e : err), ctrace (n_chan net) (acquire_default net cached) t r -> In (OErr c e) t -> r = inr EPrivilege /\ (exists t0 : list obs, t = t0 ++ [OErr c e]).
Proof. exact @loss_under_acquire_default. Qed.

Print Assumptions C06_eof_fails_read.
Print Assumptions C06_ioerr_fails_read.
Print Assumptions C06_eof_is_permanent.
Print Assumptions C06_failed_is_final.
Print Assumptions C06_loss_is_error.
Print Assumptions C06_loss_under_implicit_acquire.

(* ---- NETCONF RPCs: a transport error forwarded by the read loop fails the RPC in flight at once
   (it wins over the timer and over a reply), the id still advances ---- *)
From Scrapli Require Import Netconf NcSession NcSessionLemmas NcSegLemmas.
From Scrapli Require NcExtraLemmas.

Theorem C06_rpc_error : forall s o seg p, op_payload o = BOk p -> n_panic s = false ->
  existsb NcExtraLemmas.is_err seg = true -> snd (do_rpc s o seg) = RError (Z.of_N (n_next_id s)).
Proof. exact NcExtraLemmas.rpc_error_wins. Qed.

Print Assumptions C06_rpc_error.

(* THE TIE BY TRANSLATION for Channel.SendInputB: the function as the source has it on this run (its
   goroutine inline), run for every combination of its option tests and for a failure of either
   read (deadline or loss), invokes the primitives and returns the class of result that the model's
   send_input does — write, echo read (fuzzy or exact), return, prompt read (plain or with the
   interim patterns) unless eager, result; a deadline at a read yields the timeout error, a loss
   the transport's own error, and nothing is invoked after the failing read — for EVERY
   configuration, input, options and sequence of read outcomes. *)
From Scrapli Require Import DecideLang GeneratedSkel InteractiveSrcDefs SendInputSrc.
Theorem C06_send_input_is_source :
  sin_table_ok = true
  /\ forall cfg input o rds,
       mrun (send_input cfg input o) rds
       = (flat_map (sact_pacts cfg input o) (fst (sin_expected (o_exact o) (o_eager o) (is_nil (o_interim o)) (fail_src o input rds))),
          snd (sin_expected (o_exact o) (o_eager o) (is_nil (o_interim o)) (fail_src o input rds))).
Proof. exact send_input_is_source. Qed.
Print Assumptions C06_send_input_is_source.

(* every test that the translated functions of this property make is one the environments of their
   ties were written for: a test that is new in the source breaks this (an unknown equality would
   otherwise evaluate to false without notice) *)
From Scrapli Require Import DecideLang GeneratedSkel SendInputSrc.
Theorem C06_source_tests_known :
  tests_known send_input_code send_input_known = true.
Proof. exact send_input_tests_known. Qed.
Print Assumptions C06_source_tests_known.

(* THE TIE BY TRANSLATION for sendRPC (the polling goroutine one effect whose text is pinned): for
   every combination of what can happen — serialisation or a write failing, version, and which of
   the three communications ends the wait — the framed request and a return are written (a second
   return under 1.1), a read-loop error ends the call with that error, the timer with the timeout
   error (wrapping util.ErrTimeoutError), and otherwise the reply taken under THIS message's id is
   recorded into the response built from the serialized request (48 runs; every test known). *)
From Scrapli Require Import DecideLang GeneratedSkel RpcSrc.
Theorem C06_send_rpc_is_source : rpc_table_ok = true /\ tests_known send_rpc_code send_rpc_known = true.
Proof. exact send_rpc_is_source. Qed.
Print Assumptions C06_send_rpc_is_source.

(* THE TIE BY TRANSLATION for the read-until functions (ReadUntilFuzzy / Explicit / Prompt / AnyPrompt
   as the source has them on this run): the early return for an empty input, and one round of each
   loop for every combination of what can happen in it — the deadline is looked at FIRST, a read
   error is passed on as it is, an empty read sleeps and goes round, a chunk is appended to
   everything read, and the round returns EVERYTHING READ exactly when the function's own condition
   (its source text is pinned: the model's cond_holds for CFuzzy / CExplicit / CPrompt, on the
   search window of everything read) holds; for ReadUntilAnyPrompt, for every number of patterns
   and every pattern of matches, exactly when SOME pattern matches that window. *)
From Scrapli Require Import DecideLang DecideLemmas GeneratedSkel ReadUntilSrc.
Theorem C06_read_until_is_source :
  ru_table_ok = true
  /\ forall done read_ok nb_nil ms,
       any_run done read_ok nb_nil ms = ru_expected false false done read_ok nb_nil (existsb (fun x => x) ms).
Proof. split; [exact read_until_is_source | exact read_until_any_is_source]. Qed.
Print Assumptions C06_read_until_is_source.

(* Channel.read / Read / ReadAll as translated (the whole trace of a round compared with the model's):
   a failed transport read: end of stream stops the loop, any other error is handed to the next operation (or the loop stops if Close comes first) and nothing is enqueued; Read returns a pending error first, then a dead read loop as a connection error *)
From Scrapli Require Import ChanReadSrc.
Theorem C06_chan_read_round_is_source : chan_read_table_ok = true.
Proof. exact chan_read_round_is_source. Qed.
Print Assumptions C06_chan_read_round_is_source.

(* channel/write.go as translated: a write error reaches the operation in flight as the transport returned it: Channel.Write returns the transport's result, WriteAndReturn stops at a failed write *)
From Scrapli Require Import WriteSrc.
Theorem C06_write_is_source : write_src_ok = true.
Proof. exact write_is_source. Qed.
Print Assumptions C06_write_is_source.
