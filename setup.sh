#!/bin/sh
# Build everything from files on disk, offline: translator, Coq development (full .vo build),
# extracted model runner, Go harness (from /repo's working tree, -tags verif).
set -e
cd "$(dirname "$0")"
export GOFLAGS=-mod=mod GOPROXY=off GOSUMDB=off GOTOOLCHAIN=local
mkdir -p bin .work evidence replays
REPO="${VERIF_REPO:-/repo}"
cp "$REPO/go.sum" harness/go.sum
[ "$REPO" = /repo ] || (cd harness && go mod edit -replace github.com/scrapli/scrapligo="$REPO")
(cd gen && go build -o ../bin/gen .)
bin/gen -repo "$REPO" -out coq/theories/Generated.v -inv .work/inventory.json
(cd coq && coq_makefile -f _CoqProject -o Makefile >/dev/null 2>&1 && timeout 3000 make -j16 2>&1 | grep -v Warning | tail -40)
(cd coq/extract && coqc -Q ../theories Scrapli Extract.v >/dev/null 2>&1 && ocamlfind ocamlopt -w -a model.mli model.ml main.ml -o runner)
(cd harness && go build -tags verif -o ../bin/harness ./cmd/harness)
echo setup-ok
